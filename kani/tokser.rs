// A minimal non-self-describing serde format ("token stream": one u64 per primitive, in field order,
// sequences and options prefixed by length / tag -- the same shape as bincode's, without byte buffers).
// It drives the crate's *derived* Serialize/Deserialize impls inside Kani harnesses where the real
// bincode byte handling does not finish; counterexamples are always confirmed natively with real bincode.
pub mod tok {
    use serde::de::{self, DeserializeSeed, SeqAccess, Visitor};
    use serde::ser::{self, Serialize};
    use std::fmt;

    pub const CAP: usize = 64;
    #[derive(Clone, Copy)]
    pub struct Tok { pub buf: [u64; CAP], pub n: usize }
    impl Tok { pub fn new() -> Tok { Tok { buf: [0; CAP], n: 0 } } fn push(&mut self, v: u64) { self.buf[self.n] = v; self.n += 1; } }

    #[derive(Debug)]
    pub struct TokErr;
    impl fmt::Display for TokErr { fn fmt(&self, f: &mut fmt::Formatter) -> fmt::Result { f.write_str("tok error") } }
    impl std::error::Error for TokErr {}
    impl ser::Error for TokErr { fn custom<T: fmt::Display>(_m: T) -> Self { TokErr } }
    impl de::Error for TokErr { fn custom<T: fmt::Display>(_m: T) -> Self { TokErr } }

    pub struct S<'a>(pub &'a mut Tok);
    pub struct C<'a>(&'a mut Tok);

    macro_rules! prim { ($($m:ident $t:ty),*) => { $(fn $m(self, v: $t) -> Result<(), TokErr> { self.0.push(v as u64); Ok(()) })* } }
    impl<'a> ser::Serializer for S<'a> {
        type Ok = (); type Error = TokErr;
        type SerializeSeq = C<'a>; type SerializeTuple = C<'a>; type SerializeTupleStruct = C<'a>; type SerializeTupleVariant = C<'a>;
        type SerializeMap = C<'a>; type SerializeStruct = C<'a>; type SerializeStructVariant = C<'a>;
        prim!(serialize_u8 u8, serialize_u16 u16, serialize_u32 u32, serialize_u64 u64, serialize_i8 i8, serialize_i16 i16, serialize_i32 i32, serialize_i64 i64);
        fn serialize_bool(self, v: bool) -> Result<(), TokErr> { self.0.push(v as u64); Ok(()) }
        fn serialize_f32(self, v: f32) -> Result<(), TokErr> { self.0.push(v.to_bits() as u64); Ok(()) }
        fn serialize_f64(self, v: f64) -> Result<(), TokErr> { self.0.push(v.to_bits()); Ok(()) }
        fn serialize_char(self, v: char) -> Result<(), TokErr> { self.0.push(v as u64); Ok(()) }
        fn serialize_str(self, _v: &str) -> Result<(), TokErr> { Err(TokErr) }
        fn serialize_bytes(self, _v: &[u8]) -> Result<(), TokErr> { Err(TokErr) }
        fn serialize_none(self) -> Result<(), TokErr> { self.0.push(0); Ok(()) }
        fn serialize_some<T: ?Sized + Serialize>(self, v: &T) -> Result<(), TokErr> { self.0.push(1); v.serialize(S(self.0)) }
        fn serialize_unit(self) -> Result<(), TokErr> { Ok(()) }
        fn serialize_unit_struct(self, _n: &'static str) -> Result<(), TokErr> { Ok(()) }
        fn serialize_unit_variant(self, _n: &'static str, i: u32, _v: &'static str) -> Result<(), TokErr> { self.0.push(i as u64); Ok(()) }
        fn serialize_newtype_struct<T: ?Sized + Serialize>(self, _n: &'static str, v: &T) -> Result<(), TokErr> { v.serialize(self) }
        fn serialize_newtype_variant<T: ?Sized + Serialize>(self, _n: &'static str, i: u32, _v: &'static str, v: &T) -> Result<(), TokErr> { self.0.push(i as u64); v.serialize(S(self.0)) }
        fn serialize_seq(self, len: Option<usize>) -> Result<C<'a>, TokErr> { match len { Some(l) => { self.0.push(l as u64); Ok(C(self.0)) } None => Err(TokErr) } }
        fn serialize_tuple(self, _len: usize) -> Result<C<'a>, TokErr> { Ok(C(self.0)) }
        fn serialize_tuple_struct(self, _n: &'static str, _len: usize) -> Result<C<'a>, TokErr> { Ok(C(self.0)) }
        fn serialize_tuple_variant(self, _n: &'static str, i: u32, _v: &'static str, _len: usize) -> Result<C<'a>, TokErr> { self.0.push(i as u64); Ok(C(self.0)) }
        fn serialize_map(self, _len: Option<usize>) -> Result<C<'a>, TokErr> { Err(TokErr) }
        fn serialize_struct(self, _n: &'static str, _len: usize) -> Result<C<'a>, TokErr> { Ok(C(self.0)) }
        fn serialize_struct_variant(self, _n: &'static str, i: u32, _v: &'static str, _len: usize) -> Result<C<'a>, TokErr> { self.0.push(i as u64); Ok(C(self.0)) }
        fn is_human_readable(&self) -> bool { false }
    }
    macro_rules! compound { ($tr:ident, $m:ident) => {
        impl<'a> ser::$tr for C<'a> { type Ok = (); type Error = TokErr;
            fn $m<T: ?Sized + Serialize>(&mut self, v: &T) -> Result<(), TokErr> { v.serialize(S(&mut *self.0)) }
            fn end(self) -> Result<(), TokErr> { Ok(()) } } } }
    compound!(SerializeSeq, serialize_element); compound!(SerializeTuple, serialize_element);
    compound!(SerializeTupleStruct, serialize_field); compound!(SerializeTupleVariant, serialize_field);
    impl<'a> ser::SerializeMap for C<'a> { type Ok = (); type Error = TokErr;
        fn serialize_key<T: ?Sized + Serialize>(&mut self, _k: &T) -> Result<(), TokErr> { Err(TokErr) }
        fn serialize_value<T: ?Sized + Serialize>(&mut self, _v: &T) -> Result<(), TokErr> { Err(TokErr) }
        fn end(self) -> Result<(), TokErr> { Ok(()) } }
    impl<'a> ser::SerializeStruct for C<'a> { type Ok = (); type Error = TokErr;
        fn serialize_field<T: ?Sized + Serialize>(&mut self, _k: &'static str, v: &T) -> Result<(), TokErr> { v.serialize(S(&mut *self.0)) }
        fn end(self) -> Result<(), TokErr> { Ok(()) } }
    impl<'a> ser::SerializeStructVariant for C<'a> { type Ok = (); type Error = TokErr;
        fn serialize_field<T: ?Sized + Serialize>(&mut self, _k: &'static str, v: &T) -> Result<(), TokErr> { v.serialize(S(&mut *self.0)) }
        fn end(self) -> Result<(), TokErr> { Ok(()) } }

    pub struct D<'a> { pub t: &'a Tok, pub pos: usize }
    impl<'a> D<'a> { fn next(&mut self) -> Result<u64, TokErr> { if self.pos < self.t.n { let v = self.t.buf[self.pos]; self.pos += 1; Ok(v) } else { Err(TokErr) } } }
    struct Acc<'b, 'a> { d: &'b mut D<'a>, left: usize }
    impl<'de, 'b, 'a> SeqAccess<'de> for Acc<'b, 'a> { type Error = TokErr;
        fn next_element_seed<T: DeserializeSeed<'de>>(&mut self, seed: T) -> Result<Option<T::Value>, TokErr> {
            if self.left == 0 { return Ok(None); }
            self.left -= 1;
            seed.deserialize(&mut *self.d).map(Some) }
        fn size_hint(&self) -> Option<usize> { Some(self.left) } }
    macro_rules! dprim { ($($m:ident $v:ident $t:ty),*) => { $(fn $m<V: Visitor<'de>>(self, v: V) -> Result<V::Value, TokErr> { let x = self.next()?; v.$v(x as $t) })* } }
    impl<'de, 'b, 'a> de::Deserializer<'de> for &'b mut D<'a> {
        type Error = TokErr;
        fn deserialize_any<V: Visitor<'de>>(self, _v: V) -> Result<V::Value, TokErr> { Err(TokErr) }
        dprim!(deserialize_u8 visit_u8 u8, deserialize_u16 visit_u16 u16, deserialize_u32 visit_u32 u32, deserialize_u64 visit_u64 u64,
               deserialize_i8 visit_i8 i8, deserialize_i16 visit_i16 i16, deserialize_i32 visit_i32 i32, deserialize_i64 visit_i64 i64);
        fn deserialize_bool<V: Visitor<'de>>(self, v: V) -> Result<V::Value, TokErr> { let x = self.next()?; if x > 1 { return Err(TokErr); } v.visit_bool(x == 1) }
        fn deserialize_f32<V: Visitor<'de>>(self, v: V) -> Result<V::Value, TokErr> { let x = self.next()?; v.visit_f32(f32::from_bits(x as u32)) }
        fn deserialize_f64<V: Visitor<'de>>(self, v: V) -> Result<V::Value, TokErr> { let x = self.next()?; v.visit_f64(f64::from_bits(x)) }
        fn deserialize_char<V: Visitor<'de>>(self, _v: V) -> Result<V::Value, TokErr> { Err(TokErr) }
        fn deserialize_str<V: Visitor<'de>>(self, _v: V) -> Result<V::Value, TokErr> { Err(TokErr) }
        fn deserialize_string<V: Visitor<'de>>(self, _v: V) -> Result<V::Value, TokErr> { Err(TokErr) }
        fn deserialize_bytes<V: Visitor<'de>>(self, _v: V) -> Result<V::Value, TokErr> { Err(TokErr) }
        fn deserialize_byte_buf<V: Visitor<'de>>(self, _v: V) -> Result<V::Value, TokErr> { Err(TokErr) }
        fn deserialize_option<V: Visitor<'de>>(self, v: V) -> Result<V::Value, TokErr> { match self.next()? { 0 => v.visit_none(), 1 => v.visit_some(self), _ => Err(TokErr) } }
        fn deserialize_unit<V: Visitor<'de>>(self, v: V) -> Result<V::Value, TokErr> { v.visit_unit() }
        fn deserialize_unit_struct<V: Visitor<'de>>(self, _n: &'static str, v: V) -> Result<V::Value, TokErr> { v.visit_unit() }
        fn deserialize_newtype_struct<V: Visitor<'de>>(self, _n: &'static str, v: V) -> Result<V::Value, TokErr> { v.visit_newtype_struct(self) }
        fn deserialize_seq<V: Visitor<'de>>(self, v: V) -> Result<V::Value, TokErr> { let l = self.next()? as usize; if l > CAP { return Err(TokErr); } v.visit_seq(Acc { d: self, left: l }) }
        fn deserialize_tuple<V: Visitor<'de>>(self, len: usize, v: V) -> Result<V::Value, TokErr> { v.visit_seq(Acc { d: self, left: len }) }
        fn deserialize_tuple_struct<V: Visitor<'de>>(self, _n: &'static str, len: usize, v: V) -> Result<V::Value, TokErr> { v.visit_seq(Acc { d: self, left: len }) }
        fn deserialize_map<V: Visitor<'de>>(self, _v: V) -> Result<V::Value, TokErr> { Err(TokErr) }
        fn deserialize_struct<V: Visitor<'de>>(self, _n: &'static str, fields: &'static [&'static str], v: V) -> Result<V::Value, TokErr> { v.visit_seq(Acc { d: self, left: fields.len() }) }
        fn deserialize_enum<V: Visitor<'de>>(self, _n: &'static str, _vs: &'static [&'static str], _v: V) -> Result<V::Value, TokErr> { Err(TokErr) }
        fn deserialize_identifier<V: Visitor<'de>>(self, _v: V) -> Result<V::Value, TokErr> { Err(TokErr) }
        fn deserialize_ignored_any<V: Visitor<'de>>(self, _v: V) -> Result<V::Value, TokErr> { Err(TokErr) }
        fn is_human_readable(&self) -> bool { false }
    }

    pub fn to_tok<T: Serialize>(v: &T) -> Result<Tok, TokErr> { let mut t = Tok::new(); v.serialize(S(&mut t))?; Ok(t) }
    pub fn from_tok<T: de::DeserializeOwned>(t: &Tok) -> Result<T, TokErr> {
        let mut d = D { t, pos: 0 };
        let v = T::deserialize(&mut d)?;
        if d.pos != t.n { return Err(TokErr); }
        Ok(v)
    }
}
