"""C02  EMA recursion and everything wired from it follow the documented definition."""
from fractions import Fraction as F
import z3
from vlib import oracles as O, rcore, rfam
from vlib.mirsym import Executor, Unsupported, PathDead, R, is_sym
from vlib.rfam import ob_eq, ob_pred, discharge
from vlib.framework import fam_result, run_jobs

PMAX = 10 ** 6


def mags(v):
    """magnitudes of the price fields of a stream element (scalar, or h/l/c of a bar)"""
    return [v[1], v[2], v[3]] if isinstance(v, (tuple, list)) else [v]


def obligations(ops, outs):
    _, _, name, periods, mult = ops[0]
    fo = rfam.feeds(ops, outs)
    stream = [v for v, _ in fo]
    bars = isinstance(stream[0], (tuple, list))
    obs = []
    hist = []
    if name in ('EMA',):
        ref = O.ema_series(stream, O.alpha_of(periods[0]))
    elif name == 'TRUE_RANGE':
        ref = O.true_range_bars(stream) if bars else O.true_range_scalar(stream)
    elif name == 'ATR':
        tr = O.true_range_bars(stream) if bars else O.true_range_scalar(stream)
        ref = O.ema_series(tr, O.alpha_of(periods[0]))
    elif name == 'MACD':
        f = O.ema_series(stream, O.alpha_of(periods[0])); sl = O.ema_series(stream, O.alpha_of(periods[1]))
        line = [a - b for a, b in zip(f, sl)]
        sig = O.ema_series(line, O.alpha_of(periods[2]))
        ref = [(l, s, l - s) for l, s in zip(line, sig)]
    elif name == 'KC':
        a = O.alpha_of(periods[0])
        tr = O.true_range_bars(stream) if bars else O.true_range_scalar(stream)
        atr = O.ema_series(tr, a)
        avg = O.ema_series([O.typical(b) for b in stream] if bars else stream, a)
        ref = [(m, m + mult * r, m - mult * r) for m, r in zip(avg, atr)]
    elif name == 'CE':
        n = periods[0]
        atr = O.ema_series(O.true_range_bars(stream), O.alpha_of(n))
        ref = []
        for i in range(len(stream)):
            w = O.window(stream, i, n)
            ref.append((O.wmax([b[1] for b in w]) - mult * atr[i], O.wmin([b[2] for b in w]) + mult * atr[i]))
    for i, (v, o) in enumerate(fo):
        hist += mags(v)
        tol = O.tau(i + 1)
        if mult is not None: tol = tol * O.maxv(F(1), O.absv(mult))
        r = ref[i] if isinstance(ref[i], tuple) else (ref[i],)
        for k, (a, b) in enumerate(zip(o, r)):
            obs.append(ob_eq('%s%r step %d out[%d]' % (name, tuple(periods) if not any(is_sym(p) for p in periods) else ('p',) * len(periods), i + 1, k),
                             a, b, hist, tol, step=i))
    return obs


def r_family(mir, name, mode, n, t, seed, timeout_s):
    """n = None: symbolic periods (all periods at once); else concrete window period"""
    fam = 'R:C02 %s %s %s t=%d' % (name, mode, 'periods symbolic' if n is None else 'n=%d' % n, t)
    from vlib.inds import IND
    d = IND[name]
    if n is None:
        ps = [z3.Int('p%d' % i) for i in range(d['np'])]
        passume = [z3.And(p >= 1, p <= PMAX) for p in ps]
    else:
        ps, passume = [n] * d['np'], []
    ex = Executor(mir, assumptions=passume)
    mult = z3.Real('mult') if d['mult'] else None
    stream = rcore.reals('x', t) if mode == 'scalar' else rcore.bar_vars('b', t)
    ops = rfam.ops_stream(name, ps, mult, stream)
    xs = rfam.ops_vars(ops)
    assume = passume + rcore.bounds([x for x in xs if mult is None or not x.eq(mult)]) + (rcore.bounds([mult], bound=F(1000)) if mult is not None else [])
    try:
        outs, _ = rfam.run_ops_r(ex, ops)
    except (Unsupported, PathDead) as e:
        return fam_result(fam, 'R', 'undecided', detail='R cannot encode: %r' % (e,), bounds=dict(n=n, t=t))
    obs = obligations(ops, outs)
    last = outs[-1]
    wit = lambda: O.not_(O.eq(last[0], last[0] + 0)) if False else (R(last[0]) != R(last[0]) + 1) if False else z3.BoolVal(True)
    # witness: perturbing the reference by 1 must be refutable -> checks the assumptions are satisfiable and the output is live
    exp = obligations(ops, [None if o is None else [x + 1 for x in o] for o in outs])
    wit = lambda: O.or_(*[o.bad for o in exp[-1:]])
    return discharge(ex, ops, outs, obs, assume, obligations, seed=seed, timeout_s=timeout_s, family=fam,
                     bounds=dict(engine='R', indicator=name, input=mode, periods='every period 1..=%d (symbolic)' % PMAX if n is None else n, t=t,
                                 inputs='all reals |x|<=1e12; bar fields independent' + (', multiplier any real |m|<=1000' if mult is not None else '')),
                     witness_fn=wit, int_vars=[p for p in ps if is_sym(p)])


def main(chk):
    from vlib import mirsym, native
    mir = mirsym.dump_mir()
    native.build(); native.build('release')
    q = chk.tier == 'quick'
    t, to = (8, 60) if q else (12, 900)
    jobs = []
    for name, modes in (('EMA', ['scalar']), ('TRUE_RANGE', ['scalar', 'bar']), ('ATR', ['scalar', 'bar']), ('MACD', ['scalar']), ('KC', ['scalar', 'bar'])):
        for mode in modes:
            jobs.append((r_family, (mir, name, mode, None, t, chk.seed, to), {}))
    for n in ((1, 2, 3, 4) if q else (1, 2, 3, 4, 5)):
        jobs.append((r_family, (mir, 'CE', 'bar', n, (2 * n + 3) if q else (3 * n + 3), chk.seed, to), {}))
        jobs.append((r_family, (mir, 'KC', 'bar', n, 6, chk.seed, to), {}))
        jobs.append((r_family, (mir, 'MACD', 'scalar', n, 6, chk.seed, to), {}))
    cnt, problems = rfam.validate_translator(mir, [('EMA', [3], None), ('TRUE_RANGE', [], None), ('ATR', [3], None), ('MACD', [2, 5, 3], None),
                                                   ('KC', [3], F(2)), ('CE', [3], F(3))], chk.seed)
    chk.extra['traces_validated'] = cnt
    if problems:
        chk.add([fam_result('translator validation', 'R', 'undecided', detail='; '.join(problems[:3]))])
    chk.add(run_jobs(jobs))
    chk.assumptions += ['f64 arithmetic modelled as exact real arithmetic in engine R', 'inputs bounded by 1e12, multiplier by 1000, periods by 1e6',
                        'smoothing factor symbolic: alpha = 2/(period+1) with period a symbolic integer, covering every period at once']
    chk.notes += ['rounding-error magnitude for full-range inputs', 'histories longer than t']
