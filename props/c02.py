"""C02  EMA recursion and everything wired from it follow the documented definition."""
from fractions import Fraction as F
import z3
from vlib import oracles as O, rcore, rfam
from vlib.mirsym import Executor, Unsupported, PathDead, R, is_sym
from vlib.rfam import ob_eq, ob_pred, discharge
from vlib.framework import fam_result, run_jobs

PMAX = 10 ** 6


def mags(v):
    """magnitudes of the price fields of a stream element (scalar, or h/l/c of a bar)"""
    return [v[1], v[2], v[3]] if isinstance(v, (tuple, list)) else [v]


def obligations(ops, outs):
    _, _, name, periods, mult = ops[0]
    fo = rfam.feeds(ops, outs)
    stream = [v for v, _ in fo]
    bars = isinstance(stream[0], (tuple, list))
    obs = []
    hist = []
    if name in ('EMA',):
        ref = O.ema_series(stream, O.alpha_of(periods[0]))
    elif name == 'TRUE_RANGE':
        ref = O.true_range_bars(stream) if bars else O.true_range_scalar(stream)
    elif name == 'ATR':
        tr = O.true_range_bars(stream) if bars else O.true_range_scalar(stream)
        ref = O.ema_series(tr, O.alpha_of(periods[0]))
    elif name == 'MACD':
        f = O.ema_series(stream, O.alpha_of(periods[0])); sl = O.ema_series(stream, O.alpha_of(periods[1]))
        line = [a - b for a, b in zip(f, sl)]
        sig = O.ema_series(line, O.alpha_of(periods[2]))
        ref = [(l, s, l - s) for l, s in zip(line, sig)]
    elif name == 'KC':
        a = O.alpha_of(periods[0])
        tr = O.true_range_bars(stream) if bars else O.true_range_scalar(stream)
        atr = O.ema_series(tr, a)
        avg = O.ema_series([O.typical(b) for b in stream] if bars else stream, a)
        ref = [(m, m + mult * r, m - mult * r) for m, r in zip(avg, atr)]
    elif name == 'CE':
        n = periods[0]
        atr = O.ema_series(O.true_range_bars(stream), O.alpha_of(n))
        ref = []
        for i in range(len(stream)):
            w = O.window(stream, i, n)
            ref.append((O.wmax([b[1] for b in w]) - mult * atr[i], O.wmin([b[2] for b in w]) + mult * atr[i]))
    for i, (v, o) in enumerate(fo):
        hist += mags(v)
        tol = O.tau(i + 1)
        if mult is not None: tol = tol * O.maxv(F(1), O.absv(mult))
        r = ref[i] if isinstance(ref[i], tuple) else (ref[i],)
        for k, (a, b) in enumerate(zip(o, r)):
            obs.append(ob_eq('%s%r step %d out[%d]' % (name, tuple(periods) if not any(is_sym(p) for p in periods) else ('p',) * len(periods), i + 1, k),
                             a, b, hist, tol, step=i))
    return obs


def r_family(mir, name, mode, n, t, seed, timeout_s):
    """n = None: symbolic periods (all periods at once); else concrete window period"""
    fam = 'R:C02 %s %s %s t=%d' % (name, mode, 'periods symbolic' if n is None else 'n=%d' % n, t)
    from vlib.inds import IND
    d = IND[name]
    if n is None:
        ps = [z3.Int('p%d' % i) for i in range(d['np'])]
        passume = [z3.And(p >= 1, p <= PMAX) for p in ps]
    else:
        ps, passume = [n] * d['np'], []
    ex = Executor(mir, assumptions=passume)
    mult = z3.Real('mult') if d['mult'] else None
    stream = rcore.reals('x', t) if mode == 'scalar' else rcore.bar_vars('b', t)
    ops = rfam.ops_stream(name, ps, mult, stream)
    xs = rfam.ops_vars(ops)
    assume = passume + rcore.bounds([x for x in xs if mult is None or not x.eq(mult)]) + (rcore.bounds([mult], bound=F(1000)) if mult is not None else [])
    try:
        outs, _ = rfam.run_ops_r(ex, ops)
    except (Unsupported, PathDead) as e:
        return fam_result(fam, 'R', 'undecided', detail='R cannot encode: %r' % (e,), bounds=dict(n=n, t=t))
    obs = obligations(ops, outs)
    last = outs[-1]
    wit = lambda: O.not_(O.eq(last[0], last[0] + 0)) if False else (R(last[0]) != R(last[0]) + 1) if False else z3.BoolVal(True)
    # witness: perturbing the reference by 1 must be refutable -> checks the assumptions are satisfiable and the output is live
    exp = obligations(ops, [None if o is None else [x + 1 for x in o] for o in outs])
    wit = lambda: O.or_(*[o.bad for o in exp[-1:]])
    return discharge(ex, ops, outs, obs, assume, obligations, seed=seed, timeout_s=timeout_s, family=fam,
                     bounds=dict(engine='R', indicator=name, input=mode, periods='every period 1..=%d (symbolic)' % PMAX if n is None else n, t=t,
                                 inputs='all reals |x|<=1e12; bar fields independent' + (', multiplier any real |m|<=1000' if mult is not None else '')),
                     witness_fn=wit, int_vars=[p for p in ps if is_sym(p)])


def main(chk):
    from vlib import mirsym, native
    mir = mirsym.dump_mir()
    native.build(); native.build('release')
    q = chk.tier == 'quick'
    t, to = (8, 60) if q else (12, 900)
    jobs = []
    for name, modes in (('EMA', ['scalar']), ('TRUE_RANGE', ['scalar', 'bar']), ('ATR', ['scalar', 'bar']), ('MACD', ['scalar']), ('KC', ['scalar', 'bar'])):
        for mode in modes:
            jobs.append((r_family, (mir, name, mode, None, t, chk.seed, to), {}))
    for n in ((1, 2, 3, 4) if q else (1, 2, 3, 4, 5)):
        jobs.append((r_family, (mir, 'CE', 'bar', n, (2 * n + 3) if q else (3 * n + 3), chk.seed, to), {}))
        jobs.append((r_family, (mir, 'KC', 'bar', n, 6, chk.seed, to), {}))
        jobs.append((r_family, (mir, 'MACD', 'scalar', n, 6, chk.seed, to), {}))
    cnt, problems = rfam.validate_translator(mir, [('EMA', [3], None), ('TRUE_RANGE', [], None), ('ATR', [3], None), ('MACD', [2, 5, 3], None),
                                                   ('KC', [3], F(2)), ('CE', [3], F(3))], chk.seed)
    chk.extra['traces_validated'] = cnt
    if problems:
        chk.add([fam_result('translator validation', 'R', 'undecided', detail='; '.join(problems[:3]))])
    chk.add(run_jobs(jobs))
    hs = [k_ema_seed(1, 4), k_ema_seed(3, 1), k_ema_seed(9, 1)]          # k_true_range: twin float subtractions do not finish in CBMC (240 s): not run
    chk.add(kani.run_family_set('C02', hs, jobs=4, timeout_s=240 if q else 1200))
    chk.assumptions += ['f64 arithmetic modelled as exact real arithmetic in engine R', 'inputs bounded by 1e12, multiplier by 1000, periods by 1e6',
                        'smoothing factor symbolic: alpha = 2/(period+1) with period a symbolic integer, covering every period at once']
    chk.notes += ['rounding-error magnitude for full-range inputs', 'histories longer than t']


# ------------------------------------------------------------------------------------------------ engine K
from vlib import kani, native
from vlib.kani import KB, KOps


def k_ema_seed(p, t):
    """first input returned unchanged for every f64 bit pattern; period 1 (alpha == 1 exactly) returns every finite input unchanged"""
    b = KB('c02_ema_seed_p%d' % p, unwind=4, family='K:C02 EMA(%d): first output is the first input bit for bit (every f64)%s' % (p, '; alpha = 1: every finite input returned unchanged' if p == 1 else ''),
           bounds=dict(engine='K', indicator='EMA', period=p, t=t, inputs='first input every f64 bit pattern; later inputs every finite f64'))
    k = KOps(b)
    k.new('a', 'EMA', [p])
    x0 = b.anyf('x0')
    o = k.feed('a', 'scalar', ('var', x0, ('sym', 'x0')))
    b.emit('assert!(%s[0] == %s.to_bits(), "EMA does not return its first input unchanged");' % (o, x0))
    idx = [(len(k.ops) - 1, 'x0')]
    if p == 1:
        b.emit('kani::assume(%s.is_finite());' % x0)
        for i in range(1, t):
            x = b.anyf('x%d' % i, finite=True)
            o = k.feed('a', 'scalar', ('var', x, ('sym', 'x%d' % i)))
            b.emit('assert!(f64::from_bits(%s[0]) == %s, "EMA(1) does not return its input");' % (o, x))
            idx.append((len(k.ops) - 1, 'x%d' % i))

    def confirm(vals):
        ops = k.concrete(vals)
        lines, res = kani.native_ops(ops)
        for (j, tag) in idx:
            want = kani.hexf(vals[tag])
            r = res[j]
            if r == 'panic' or not kani.same_f(r[0], want): return True, lines, 'EMA(%d) returned %r for input %r' % (p, r, want)
        return False, lines, 'native agrees'
    b.confirm = confirm
    return b


def k_true_range(t):
    """TrueRange on bars == max(high-low, |high-prev close|, |low-prev close|) for every finite bar (comparisons and one subtraction level)"""
    b = KB('c02_true_range_bars_t%d' % t, unwind=4, family='K:C02 TrueRange bars: the greatest of the three distances, every finite f64, %d bars' % t,
           bounds=dict(engine='K', indicator='TRUE_RANGE', t=t, inputs='high, low, close every finite f64 (independent)'))
    k = KOps(b)
    k.new('a', 'TRUE_RANGE', [])
    prev = None
    idx = []
    for i in range(t):
        h, l, c = b.anyf('h%d' % i, finite=True), b.anyf('l%d' % i, finite=True), b.anyf('c%d' % i, finite=True)
        o = k.feed('a', 'bar', [('lit', 1.0), ('var', h, ('sym', 'h%d' % i)), ('var', l, ('sym', 'l%d' % i)), ('var', c, ('sym', 'c%d' % i)), ('lit', 1.0)])
        if prev is None:
            b.emit('assert!(same(%s, [(%s - %s).to_bits(), 0, 0]), "first TrueRange is not high - low");' % (o, h, l))
        else:
            b.emit('{ let d1 = %s - %s; let d2 = (%s - %s).abs(); let d3 = (%s - %s).abs(); let r = f64::from_bits(%s[0]); '
                   'kani::assume(d1.is_finite() && d2.is_finite() && d3.is_finite()); '
                   'assert!(r >= d1 && r >= d2 && r >= d3 && (r == d1 || r == d2 || r == d3), "TrueRange is not the greatest of the three distances"); }' % (h, l, h, prev, l, prev, o))
        idx.append(len(k.ops) - 1)
        prev = c

    def confirm(vals):
        ops = k.concrete(vals)
        lines, res = kani.native_ops(ops)
        pc = None
        for i, j in enumerate(idx):
            h, l, c = [kani.hexf(vals['%s%d' % (f, i)]) for f in 'hlc']
            r = res[j]
            want = (h - l) if pc is None else max(h - l, abs(h - pc), abs(l - pc))
            import math
            if r == 'panic' or (math.isfinite(want) and r[0] != want): return True, lines, 'TrueRange bar %d: %r, expected %r' % (i + 1, r, want)
            pc = c
        return False, lines, 'native agrees'
    b.confirm = confirm
    return b
