"""C18  State size and heap use depend on the parameters only, never on stream length."""
from fractions import Fraction as F
import z3
from vlib import rcore, rfam, native, kani
from vlib.kani import KB, KOps
from vlib.framework import fam_result, run_jobs
from vlib.mirsym import Executor, Unsupported, PathDead, Agg, Arr, Ptr, EnumV
from vlib.inds import IND, ALL, RInst
from props.c04 import specs


def bound(per):
    return 256 + 64 * sum(per)


def heap_shape(ex, v, acc):
    """sizes of heap arrays reachable from a value"""
    if isinstance(v, Agg):
        for x in v.f: heap_shape(ex, x, acc)
    elif isinstance(v, EnumV):
        for p in v.pay.values():
            for x in p: heap_shape(ex, x, acc)
    elif isinstance(v, Ptr) and v.oid in ex.heap and isinstance(ex.heap[v.oid], Arr):
        acc.append((v.oid, len(ex.heap[v.oid].e)))
    return acc


def _walk(seed):
    def f(i, st={}):
        if i == 0: st['x'] = 50; st['r'] = seed * 2654435761 % 2 ** 32
        st['r'] = (st['r'] * 1103515245 + 12345) % 2 ** 31
        st['x'] = max(1, st['x'] + (st['r'] >> 16) % 5 - 2)
        return float(st['x'])
    return f


SHAPES = {
    'rising': lambda i: 100.0 + i, 'falling': lambda i: 1e6 - i, 'flat': lambda i: 42.0, 'alternating': lambda i: 10.0 + (i % 2),
    'sawtooth-decay': lambda i: 1000.0 / (1 + i // 7) + (i % 7), 'rising-with-repeats': lambda i: 100.0 + (i - i // 7),
    'random-ints': lambda i: float((i * 7919 + 13) % 97), 'falling-with-repeats': lambda i: 1e6 - (i - i // 5),
}
for _k in (2, 3, 4, 5, 6, 9, 11):
    SHAPES['rising-repeat-every-%d' % _k] = (lambda k: (lambda i: 100.0 + (i - i // k)))(_k)
    SHAPES['falling-repeat-every-%d' % _k] = (lambda k: (lambda i: 1e6 - (i - i // k)))(_k)
for _s in range(6):
    SHAPES['integer-walk-%d' % _s] = _walk(_s + 1)


def native_growth(name, per, mult, steps=3000):
    """-> (shape, step, size, lines) if the serialized size exceeds the property's bound on some stream shape, else None"""
    mode = 'scalar' if IND[name]['scalar'] else 'bar'
    for shape, f in SHAPES.items():
        lines = [native.new_cmd('a', name, per, mult)]
        marks = []
        for i in range(steps):
            x = f(i)
            lines.append(native.feed_cmd('a', x if mode == 'scalar' else (x, x + 1.0, x - 1.0, x, 10.0 + (i % 3))))
            if i < 64 or i % 97 == 0 or i == steps - 1:
                lines.append('sersize a'); marks.append((len(lines) - 1, i))
        rep = native.run_script(lines)
        cmds = [l for l in lines]
        for (li, i) in marks:
            r = rep[li]
            if r[0] == 'usize' and r[1] > bound(per):
                return shape, i + 1, r[1], lines[:li + 1]
    return None


def r_family(mir, name, n, seed):
    """unrolled next()/reset() from new(): no allocation call is reached inside next/reset, and the owned heap arrays keep their identity and length"""
    per = specs(name, n)
    mode = 'scalar' if IND[name]['scalar'] else 'bar'
    mult = F(2) if IND[name]['mult'] else None
    fam = 'R:C18 %s periods=%s: next()/reset() reach no allocation; owned buffers keep identity and length' % (name, per)
    steps = 3 * n + 3
    b = dict(engine='R', indicator=name, periods=per, steps=steps, inputs='symbolic')
    ex = Executor(mir)
    stream = rfam.make_stream(mode, steps + 2)
    try:
        inst = RInst.create(ex, name, per, mult)
        shape0 = sorted(heap_shape(ex, inst.state(), []))
        nalloc0 = len(ex.allocs)
        for i, v in enumerate(stream):
            if i == steps: inst.reset()
            inst.feed(v)
            if sorted(heap_shape(ex, inst.state(), [])) != shape0:
                return fam_result(fam, 'R', 'undecided', detail='owned heap arrays changed identity/length at step %d' % (i + 1), bounds=b)
        in_next = [a for a in ex.allocs[nalloc0:]]
    except PathDead as e:
        in_next = []
    except Unsupported as e:
        in_next = [a for a in ex.allocs if any(('::next' in f or '::reset' in f or 'find_m' in f) for f in a[0])]
        if not in_next:
            return fam_result(fam, 'R', 'undecided', detail='R cannot encode: %r' % (e,), bounds=b, functions=sorted(ex.called), lib_models=sorted(ex.lib_called))
    base = dict(bounds=b, obligations=2, symbolic_inputs=len(rfam.stream_vars(stream)) if hasattr(rfam, 'stream_vars') else steps, witness='alive',
                functions=sorted(ex.called), lib_models=sorted(ex.lib_called),
                sample={'callees_executed': sorted(set(f.split('::')[-1] for f in ex.called))[:10], 'allocation_calls_inside_next_or_reset': [a[1] for a in in_next]})
    if in_next:
        # an allocating call is reachable inside next()/reset(): look natively for streams on which the state grows past the bound
        g = native_growth(name, per, None if mult is None else float(mult))
        if g:
            return fam_result(fam, 'R', 'violation', discharged=0, replay=g[3],
                              detail='%s reaches %s inside next(); natively, on a %s stream the bincode size is %d bytes after %d inputs, above the bound %d' % (name, in_next[0][1], g[0], g[2], g[1], bound(per)), **base)
        return fam_result(fam, 'R', 'undecided', discharged=1, detail='%s reaches the allocating call %s inside next()/reset(); no growth past the bound found natively on %d stream shapes' % (name, in_next[0][1], len(SHAPES)), **base)
    return fam_result(fam, 'R', 'ok', discharged=2, **base)


def probe_family(name, nn):
    per = specs(name, nn)
    g = native_growth(name, per, 2.0 if IND[name]['mult'] else None, steps=1200)
    fam = 'native long-stream size probe %s%r' % (name, tuple(per))
    if g:
        return fam_result(fam, 'K', 'violation', replay=g[3], obligations=1, discharged=0,
                          detail='%s: bincode size %d after %d inputs of a %s stream exceeds %d' % (name, g[2], g[1], g[0], bound(per)))
    return fam_result(fam, 'K', 'ok', obligations=1, discharged=1)


def k_size(name, mode, n, steps, finite=False):
    per = specs(name, n)
    b = KB('c18_size_%s_%s_n%d_t%d' % (name.lower(), mode, n, steps), unwind=max(per + [4]) + 4 if steps < 20 else max(per + [4]) + 6,
           family='K:C18 %s %s periods=%s: bincode::serialized_size <= 256+64*sum(periods) after each of %d arbitrary steps and after reset' % (name, mode, per, steps),
           bounds=dict(engine='K', indicator=name, input=mode, periods=per, steps=steps, inputs='every finite f64' if finite else 'every f64 bit pattern', bound_bytes=bound(per)))
    k = KOps(b)
    k.new('a', name, per)
    b.emit('let lim: u64 = %d;' % bound(per))
    for i in range(steps):
        k.feed('a', mode, 'finite' if finite else 'any', 'x%d' % i)
        if steps < 20 or i % 8 == 7 or i == steps - 1:
            b.emit('assert!(bincode::serialized_size(&a).unwrap() <= lim, "serialized size exceeds the bound");')
    k.reset('a')
    b.emit('assert!(bincode::serialized_size(&a).unwrap() <= lim, "serialized size exceeds the bound after reset");')

    def confirm(vals):
        ops = k.concrete(vals)
        lines = []
        for op in ops:
            lines += rfam.ops_lines([op])
            if op[0] in ('feed', 'reset'): lines.append('sersize a')
        rep = native.run_script(lines)
        for l, r in zip(lines, rep):
            if l == 'sersize a' and r[0] == 'usize' and r[1] > bound(per):
                return True, lines, '%s serialized size %d bytes exceeds the bound %d' % (name, r[1], bound(per))
        return False, lines, 'native size within the bound'
    b.confirm = confirm
    return b


def main(chk):
    from vlib import mirsym
    mir = mirsym.dump_mir()
    native.build(); native.build('release')
    q = chk.tier == 'quick'
    jobs = []
    for name in ALL:
        for n in ((1, 2, 3) if q else (1, 2, 3, 4, 6)):
            if IND[name]['np'] == 0 and n > 1: continue
            jobs.append((r_family, (mir, name, n, chk.seed), {}))
    chk.add(run_jobs(jobs))
    hs = []
    for name in ALL:
        mode = 'scalar' if IND[name]['scalar'] else 'bar'
        for n in ((2,) if q else (1, 2, 4)):
            if IND[name]['np'] == 0 and n > 2: continue
            hs.append(k_size(name, mode, n, n + 3))
    chk.add(kani.run_family_set('C18', hs, jobs=14, timeout_s=300 if q else 1800))
    # translator-independent sanity: the native size is within the bound on long streams of several shapes (also the confirmation path of R)
    pj = []
    for name in ALL:
        for nn in ((1, 2, 3, 4, 8) if IND[name]['np'] else (1,)):
            pj.append((probe_family, (name, nn), {}))
    pres = run_jobs(pj)
    chk.add([r for r in pres if r['status'] != 'ok'])
    cnt = len(pj) * len(SHAPES)
    chk.extra['traces_validated'] = cnt
    chk.assumptions += ['R: by induction over the unrolled steps the owned heap is the constructor\'s allocation; an allocating call reachable inside next()/reset() is confirmed or refuted by a native long-stream probe',
                        'K: the real bincode::serialized_size is compiled into the harness']
    chk.notes += ['live-heap measurement with a counting allocator over 10^5..10^6 steps (not a solver question; Kani has no custom global allocators)', 'periods above the bound']
