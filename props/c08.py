"""C08  Flat or zero-flow windows give finite, neutral outputs -- never NaN or garbage."""
import math
from fractions import Fraction as F
import z3
from vlib import oracles as O, rcore, rfam, native
from vlib.rfam import Ob, make_stream, stream_assumptions
from vlib.framework import fam_result, run_jobs
from vlib.mirsym import Executor, Unsupported, PathDead, is_sym, R
from vlib.inds import IND, ALL, RInst
from props.c04 import specs

LAG1 = ('ROC', 'ER', 'MFI')            # difference against the value before the window


def flat_bar(level, vol):
    return (level, level, level, level, vol)


def build_ops(name, mode, n, p, ell, zero_volume=False, reset_after_prefix=False):
    per = specs(name, n)
    mult = F(2) if IND[name]['mult'] else None
    pre = make_stream(mode, p, 'p')
    level = z3.Real('level')
    if mode == 'scalar':
        flat = [level] * ell
    elif zero_volume:
        flat = [(b[0], b[1], b[2], b[3], F(0)) for b in make_stream('bar', ell, 'z')]
    else:
        flat = [flat_bar(level, z3.Real('fv%d' % i)) for i in range(ell)]
    ops = [('new', 'a', name, tuple(per), mult)] + [('feed', 'a', v) for v in pre] + ([('reset', 'a')] if reset_after_prefix else []) + [('feed', 'a', v) for v in flat]
    assume = stream_assumptions(pre + [f for f in flat if isinstance(f, tuple)], 'validbar' if mode == 'bar' else 'positive')
    assume += [level > 0, level <= R(rcore.BOUND)]
    return ops, assume, per


def degenerate(name, n, p, i):
    """is step i (0-based over all feeds) one whose reference window lies entirely in the flat stretch?"""
    if p == 0: return True          # flat from the start (or from a reset): every window so far holds only the flat level
    need = n + (1 if name in LAG1 else 0)
    if name in ('TRUE_RANGE',): need = 2
    if name in ('OBV',): need = 2
    return i - p + 1 >= need


def neutral_obs(name, mode, i, o, level):
    lab = '%s flat-window step %d' % (name, i + 1)
    def eqv(x, v, what):
        bad = O.not_(O.eq(x, v)); return Ob('%s: %s' % (lab, what), bad, bad)
    if name == 'FAST_STOCH': return [eqv(o[0], F(50), 'FastStochastic == 50')]
    if name == 'CCI': return [eqv(o[0], F(0), 'CCI == 0')]
    if name == 'ROC': return [eqv(o[0], F(0), 'RateOfChange == 0')]
    if name == 'TRUE_RANGE': return [eqv(o[0], F(0), 'TrueRange == 0')]
    if name == 'MAD': return [eqv(o[0], F(0), 'MAD == 0')]
    if name == 'SD': return [eqv(o[0], F(0), 'SD == 0')]
    if name == 'BB': return [eqv(o[1], o[0], 'upper == average'), eqv(o[2], o[0], 'lower == average')]
    if name in ('SMA', 'WMA', 'MIN', 'MAX'): return [eqv(o[0], level, 'output == the flat level')]
    if name in ('RSI', 'SLOW_STOCH', 'MFI'):
        bad = O.or_(o[0] < 0, o[0] > 100); return [Ob(lab + ': in [0,100]', bad, bad)]
    if name == 'ER':
        bad = O.or_(o[0] < 0, o[0] > 1); return [Ob(lab + ': in [0,1]', bad, bad)]
    return []


def native_nonfinite(ops_f):
    """-> (step index, value, lines) of the first non-finite native output, or None"""
    for prof in ('dev', 'release'):
        lines, outs = rfam.run_ops_native(ops_f, prof)
        k = 0
        for op, o in zip(ops_f, outs):
            if op[0] != 'feed': continue
            if o == 'panic' or (isinstance(o, list) and not all(math.isfinite(x) for x in o)):
                return k, o, lines
            k += 1
    return None


def r_family(mir, name, mode, n, p, ell, seed, to, zero_volume=False, reset_after_prefix=False):
    fam = 'R:C08 %s %s n=%d prefix=%d flat=%d%s%s' % (name, mode, n, p, ell, ' (zero-volume stretch)' if zero_volume else '', ' (reset between prefix and flat stretch)' if reset_after_prefix else '')
    role_base = dict(indicator=name, family='flat-window' if not zero_volume else 'zero-volume', periods=specs(name, n))
    ops, assume, per = build_ops(name, mode, n, p, ell, zero_volume, reset_after_prefix)
    p_eff = 0 if reset_after_prefix else p
    b = dict(engine='R', indicator=name, input=mode, periods=per, prefix=p, flat=ell, inputs='symbolic positive prefix, symbolic positive flat level' + (', zero volume' if zero_volume else ''))
    ex = Executor(mir)
    st = rcore.Stats()
    level = z3.Real('level')
    outs = []
    dead_at = None
    try:
        inst = RInst.create(ex, name, per, ops[0][4])
        ndiv = 0
        obs = []
        i = -1
        seen_reset = not reset_after_prefix
        for op in ops[1:]:
            if op[0] == 'reset':
                inst.reset(); i = -1; seen_reset = True; continue
            i += 1
            try:
                o = inst.feed(op[2])
            except PathDead as e:
                dead_at = (i, str(e)); break
            outs.append(o)
            if seen_reset and degenerate(name, n, p_eff, i) and not zero_volume:
                obs += neutral_obs(name, mode, i, o, level)
            elif zero_volume and i >= p_eff + n and name in ('MFI', 'OBV'):
                obs += neutral_obs(name, mode, i, o, level)
            # every denominator met so far must be non-zero (else NaN/inf)
            for (pc, den, fn) in ex.divs[ndiv:]:
                if is_sym(den):
                    bad = z3.And(pc, den == 0)
                    obs.append(Ob('%s step %d: denominator in %s is never zero' % (name, i + 1, fn.split('::')[0]), bad, bad))
            ndiv = len(ex.divs)
    except Unsupported as e:
        return fam_result(fam, 'R', 'undecided', detail='R cannot encode: %r' % (e,), bounds=b)
    base = dict(bounds=b, symbolic_inputs=len(rfam.ops_vars(ops)) + 1, functions=sorted(ex.called), lib_models=sorted(ex.lib_called), witness='alive')
    allassume = assume + list(ex.defs) + list(ex.nopanic)
    if dead_at is not None:
        # a concrete 0/0 (or x/0) on this path: pick any input satisfying the assumptions and confirm natively
        r, m = rcore.solve(st, allassume, z3.BoolVal(True), to, seed, stages=(2,))
        if r != 'sat':
            return fam_result(fam, 'R', 'undecided', detail='division by zero at step %d but no model of the assumptions (%s)' % (dead_at[0] + 1, r), **base)
        ms = rcore.snap_model(allassume, z3.BoolVal(True), rfam.ops_vars(ops) + [level], 5, seed) or m
        ops_f = rfam.concretize_ops(ops, ms)
        nf = native_nonfinite(ops_f)
        if nf is None:
            return fam_result(fam, 'R', 'undecided', detail='R reaches a division by zero at step %d (%s) but the native run stays finite' % (dead_at[0] + 1, dead_at[1]), **base)
        return fam_result(fam, 'R', 'violation', role=dict(role_base, kind='non-finite'), replay=nf[2], obligations=1, discharged=0, stats=st.as_dict(),
                          detail='%s returns %r at step %d of %s (zero denominator on a degenerate window)' % (name, nf[1], nf[0] + 1, [op[2] for op in ops_f[1:] if op[0] == 'feed']), **base)
    live = [o for o in obs if is_sym(o.bad) or o.bad is True]
    done = len(obs) - len(live)
    status, detail, replay, role = 'ok', '', None, None
    for o in live:
        r, m = rcore.solve(st, allassume, o.bad, to, seed, label=fam + ' : ' + o.label)
        if r == 'unsat':
            done += 1; continue
        if r == 'unknown':
            status, detail = 'undecided', 'solver unknown on ' + o.label; continue
        ms = rcore.snap_model(allassume, o.bad, rfam.ops_vars(ops) + [level], 5, seed) or m
        ops_f = rfam.concretize_ops(ops, ms)
        nf = native_nonfinite(ops_f)
        if nf is not None:
            status, detail, replay, role = 'violation', '%s: native output %r at step %d of %s' % (o.label, nf[1], nf[0] + 1, [op[2] for op in ops_f[1:] if op[0] == 'feed']), nf[2], dict(role_base, kind='non-finite')
            break
        # neutral value: confirm natively with the property's own tolerances
        lines, nouts = rfam.run_ops_native(ops_f)
        fo = [x for op, x in zip(ops_f, nouts) if op[0] == 'feed']
        if reset_after_prefix: fo = fo[p:]                    # steps are counted from the reset
        M = max(abs(x) for op in ops_f[1:] if op[0] == 'feed' for x in (op[2] if isinstance(op[2], tuple) else (op[2],)))
        badn = None
        for i, x in enumerate(fo):
            if not degenerate(name, n, p_eff, i): continue
            t = float(O.tau(i + 1))
            lv = ops_f[-1][2][3] if isinstance(ops_f[-1][2], tuple) else ops_f[-1][2]
            if name in ('FAST_STOCH',) and x[0] != 50.0: badn = (i, x)
            elif name in ('CCI', 'ROC', 'TRUE_RANGE') and x[0] != 0.0: badn = (i, x)
            elif name == 'MAD' and abs(x[0]) > t * M: badn = (i, x)
            elif name == 'SD' and abs(x[0]) > math.sqrt(t) * M: badn = (i, x)
            elif name == 'BB' and max(abs(x[1] - x[0]), abs(x[2] - x[0])) > math.sqrt(t) * M * 2: badn = (i, x)
            elif name in ('SMA', 'WMA') and abs(x[0] - lv) > t * M: badn = (i, x)
            elif name in ('MIN', 'MAX') and x[0] != lv: badn = (i, x)
            if badn: break
        if badn:
            status, detail, replay, role = 'violation', '%s: native output %r at step %d of %s' % (o.label, badn[1], badn[0] + 1, [op[2] for op in ops_f[1:] if op[0] == 'feed']), lines, dict(role_base, kind='not-neutral')
            break
        status, detail = 'undecided', 'solver model for %s did not reproduce natively' % o.label
    return fam_result(fam, 'R', status, detail=detail, replay=replay, role=role, obligations=len(obs), discharged=done, stats=st.as_dict(),
                      sample={'ops': [str(op)[:100] for op in ops[:3]], 'obligation': obs[-1].label if obs else ''}, **base)


def main(chk):
    from vlib import mirsym
    mir = mirsym.dump_mir()
    native.build(); native.build('release')
    q = chk.tier == 'quick'
    to = 90 if q else 300
    jobs = []
    for name in ALL:
        mode = 'scalar' if IND[name]['scalar'] else 'bar'
        for n in ((1, 2, 3) if q else (1, 2, 3, 4)):
            if IND[name]['np'] == 0 and n > 1: continue
            for p in ((0, n + 1) if q else (0, 1, n + 1)):
                jobs.append((r_family, (mir, name, mode, n, p, n + 2, chk.seed, to), {}))
            if name not in ('ER', 'MFI', 'RSI'):
                jobs.append((r_family, (mir, name, mode, n, n + 2, n + 2, chk.seed, to), {'reset_after_prefix': True}))
        if name in ('MFI', 'OBV'):
            for n in (1, 2, 3):
                if IND[name]['np'] == 0 and n > 1: continue
                jobs.append((r_family, (mir, name, 'bar', n, 2, n + 2, chk.seed, to), {'zero_volume': True}))
        if name in ('FAST_STOCH', 'TRUE_RANGE', 'KC'):
            for n in (1, 2):
                if IND[name]['np'] == 0 and n > 1: continue
                jobs.append((r_family, (mir, name, 'bar', n, n + 1, n + 2, chk.seed, to), {}))
    chk.add(run_jobs(jobs))
    hs = []
    for n in ((1, 2) if q else (1, 2, 3)):
        hs.append(k_exact('FAST_STOCH', 'scalar', n, chk.seed)); hs.append(k_exact('FAST_STOCH', 'bar', n, chk.seed))
        hs.append(k_exact('MIN', 'scalar', n, chk.seed)); hs.append(k_exact('MAX', 'scalar', n, chk.seed))
        hs.append(k_roc_table(n, chk.seed))          # the full-range variant (k_exact('ROC', ..)) does not finish in CBMC: not run
    hs.append(k_exact('TRUE_RANGE', 'scalar', 1, chk.seed)); hs.append(k_exact('TRUE_RANGE', 'bar', 1, chk.seed))
    if not q: hs.append(k_cci_flat(2, chk.seed))
    else:
        # quick tier: re-confirm the listed witness of the known CCI finding natively (the Kani search that found it runs in the thorough tier)
        lines = ['new a CCI 2'] + ['bar a %r %r %r %r 1' % (c, c, c, c) for c in (0.1, 0.7, 0.3, 0.3, 0.3)]
        rep = native.run_script(lines)
        last = rep[-1][1][0] if rep[-1][0] == 'out' else None
        if last is not None and last != 0.0:
            chk.add([fam_result('K:C08 CCI n=2 flat window (listed witness re-confirmed natively)', 'K', 'violation', replay=lines,
                                role=dict(indicator='CCI', family='flat-window', kind='not-neutral', periods=[2]),
                                detail='CCI(2) closes 0.1,0.7,0.3,0.3,0.3 -> %r' % last, obligations=1, discharged=0)])
    kres = kani.run_family_set('C08', hs, jobs=12, timeout_s=300 if q else 900)
    roles = {h.family: getattr(h, 'role', None) for h in hs}
    for r in kres:
        if r['status'] == 'violation' and roles.get(r['family']): r['role'] = roles[r['family']]
    chk.add(kres)
    chk.assumptions += ['engine R: exact real arithmetic: decides which windows make a denominator exactly zero and the neutral values in exact arithmetic; '
                        'rounding residue on flat windows (e.g. CCI) is engine K\'s part',
                        'flat stretch = equal prices at a symbolic positive level (bars: o=h=l=c=level, volume symbolic >= 0) or a zero-volume stretch; prefix symbolic']
    chk.notes += ['flat stretches long enough for exponential averages to underflow (hundreds of steps) are beyond unrolling', 'periods above the bound']


# ------------------------------------------------------------------------------------------------
# Engine K: the float-specific half (exact neutral values on every finite level; rounding residue)
from vlib import kani
from vlib.kani import KB, KOps

TAB = [0.1, 0.7, 0.3, 1000.25, 3.0]


def k_exact(name, mode, n, seed):
    """arbitrary finite prefix, then a flat stretch at an arbitrary finite positive level: exact neutral value"""
    per = specs(name, n)
    b = KB('c08_exact_%s_%s_n%d' % (name.lower(), mode, n), unwind=max(per + [1]) + 3,
           family='K:C08 %s %s periods=%s: finite prefix, flat stretch at every finite positive level -> exact neutral value' % (name, mode, per),
           bounds=dict(engine='K', indicator=name, input=mode, periods=per, prefix='%d arbitrary finite f64' % n, flat='%d steps at any finite level in [1e-300, 1e300]' % (n + 2)))
    k = KOps(b)
    k.new('a', name, per)
    for i in range(n): k.feed('a', mode, 'finite', 'p%d' % i)
    L = b.anyf('level', finite=True, cond='{v} >= 1e-300 && {v} <= 1e300')
    need = n + (1 if name in LAG1 else 0)
    if name == 'TRUE_RANGE': need = 2
    outs = []
    for j in range(n + 2):
        pol = ('var', L, ('sym', 'level'))
        o = k.feed('a', mode, pol if mode == 'scalar' else [pol] * 4 + [('lit', 7.0)])
        if j + 1 >= need:
            if name == 'FAST_STOCH': b.emit('assert!(f64::from_bits(%s[0]) == 50.0, "FastStochastic on a flat window is not exactly 50");' % o)
            elif name in ('ROC', 'TRUE_RANGE'): b.emit('assert!(f64::from_bits(%s[0]) == 0.0, "not exactly 0 on a flat window");' % o)
            elif name in ('MIN', 'MAX'): b.emit('assert!(f64::from_bits(%s[0]) == %s, "not the flat level");' % (o, L))
            outs.append(len(k.ops) - 1)

    def confirm(vals):
        ops = k.concrete(vals)
        for prof in ('dev', 'release'):
            lines, res = kani.native_ops(ops, prof)
            lv = kani.hexf(vals['level'])
            for idx in outs:
                x = res[idx]
                if x == 'panic': return True, lines, 'native panic'
                want = 50.0 if name == 'FAST_STOCH' else (0.0 if name in ('ROC', 'TRUE_RANGE') else lv)
                if not (x[0] == want): return True, lines, '%s returns %r on a flat window at level %r, expected exactly %r (%s profile)' % (name, x[0], lv, want, prof)
        return False, lines, 'native neutral'
    b.confirm = confirm
    return b


def level_table(seed, count=96):
    import random
    rnd = random.Random(1000 + seed)
    tab = [round(rnd.uniform(0.05, 30.0), 2) for _ in range(count // 2)]
    tab += [rnd.uniform(1e-3, 1e6) for _ in range(count // 4)] + [rnd.uniform(0.5, 2.0) * 2.0 ** rnd.randint(-40, 40) for _ in range(count - count // 2 - count // 4)]
    return tab


def k_roc_table(n, seed):
    """ROC exactly 0 on a flat window, level symbolic over a table of two-decimal prices and random doubles
    (full-range multiply/divide does not finish in CBMC; the table is rotated by VERIF_SEED)"""
    table = level_table(seed)
    b = KB('c08_roc_table_n%d' % n, unwind=n + 3, family='K:C08 ROC n=%d: flat stream at a level symbolic over a %d-value table -> exactly 0' % (n, len(table)),
           bounds=dict(engine='K', indicator='ROC', periods=[n], flat='%d steps' % (n + 2), level='symbolic over %d values: two-decimal prices, random doubles in [1e-3,1e6], random binades 2^-40..2^40 (seeded)' % len(table)))
    k = KOps(b)
    k.new('a', 'ROC', [n])
    L = b.pick('level', table); k.tables['level'] = table
    idxs = []
    for j in range(n + 2):
        o = k.feed('a', 'scalar', ('var', L, ('pick', 'level')))
        b.emit('assert!(f64::from_bits(%s[0]) == 0.0, "ROC on a flat stream is not exactly 0");' % o)
        idxs.append(len(k.ops) - 1)

    def confirm(vals):
        ops = k.concrete(vals)
        lines, res = kani.native_ops(ops)
        for idx in idxs:
            if res[idx] == 'panic' or res[idx][0] != 0.0:
                return True, lines, 'ROC(%d) returns %r on a flat stream at level %r' % (n, res[idx], table[vals['level']])
        return False, lines, 'native 0'
    b.confirm = confirm
    return b


def k_cci_flat(n, seed):
    """known finding D6: rounding residue defeats CCI's `mad == 0.0` guard on a flat window"""
    table = TAB[seed % len(TAB):] + TAB[:seed % len(TAB)]
    b = KB('c08_cci_flat_n%d' % n, unwind=n + 3, family='K:C08 CCI n=%d: alphabet prefix then flat window -> exactly 0' % n,
           bounds=dict(engine='K', indicator='CCI', periods=[n], prefix='2 closes symbolic over %r' % (table,), flat='%d equal bars at a level symbolic over the same table' % (n + 1)))
    k = KOps(b)
    k.new('a', 'CCI', [n])
    for i in range(2):
        v = ('pick', table)
        k.n += 1
        x = b.pick('p%d' % i, table)
        o = 'o%d' % k.n
        b.emit('let %s = a.next(&B { o: %s, h: %s, l: %s, c: %s, v: 1.0 }).ob();' % (o, x, x, x, x))
        k.tables['p%d' % i] = table
        k.ops.append(('feed', 'a', (('pick', 'p%d' % i),) * 4 + (('lit', 1.0),))); k.outs.append(o)
    L = b.pick('level', table); k.tables['level'] = table
    idxs = []
    for j in range(n + 1):
        k.n += 1
        o = 'o%d' % k.n
        b.emit('let %s = a.next(&B { o: %s, h: %s, l: %s, c: %s, v: 1.0 }).ob();' % (o, L, L, L, L))
        k.ops.append(('feed', 'a', (('pick', 'level'),) * 4 + (('lit', 1.0),))); k.outs.append(o)
        if j + 1 >= n:
            b.emit('assert!(f64::from_bits(%s[0]) == 0.0, "CCI on a flat window is not 0");' % o)
            idxs.append(len(k.ops) - 1)

    def confirm(vals):
        ops = k.concrete(vals)
        lines, res = kani.native_ops(ops)
        for idx in idxs:
            if res[idx] == 'panic' or res[idx][0] != 0.0:
                return True, lines, 'CCI(%d) returns %r on a flat window (closes %r)' % (n, res[idx], [kani.hexf(op[2][3]) if isinstance(op[2][3], str) else op[2][3] for op in ops if op[0] == 'feed'])
        return False, lines, 'native 0'
    b.confirm = confirm
    b.role = dict(indicator='CCI', family='flat-window', kind='not-neutral', periods=[n])
    return b
