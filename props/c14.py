"""C14  Outputs are covariant with the price unit: rescaling/shifting act as in the math."""
from fractions import Fraction as F
import z3
from vlib import oracles as O, rcore, rfam
from vlib.rfam import Ob, run_family, make_stream, stream_assumptions
from vlib.framework import fam_result, run_jobs
from vlib.mirsym import is_sym, R
from vlib.inds import IND
from props.c04 import specs
from props.c17 import cond_number

PRICE = ('SMA', 'EMA', 'WMA', 'MIN', 'MAX', 'SD', 'MAD', 'TRUE_RANGE', 'ATR', 'MACD', 'BB', 'KC', 'CE')
DIMLESS = ('FAST_STOCH', 'SLOW_STOCH', 'ROC', 'ER', 'PPO', 'CCI', 'MFI', 'OBV')
SHIFT_MOVES = ('SMA', 'EMA', 'WMA', 'MIN', 'MAX', 'BB', 'KC', 'CE')
SHIFT_KEEPS = ('SD', 'MAD', 'TRUE_RANGE', 'ATR', 'MACD', 'FAST_STOCH')
SCALE = {'FAST_STOCH': 100, 'SLOW_STOCH': 100, 'ROC': 100, 'PPO': 100, 'MFI': 100, 'ER': 1, 'CCI': F(1000, 15)}


def scale_val(v, c, bars):
    if isinstance(v, (tuple, list)): return (v[0] * c, v[1] * c, v[2] * c, v[3] * c, v[4])
    return v * c


def shift_val(v, d):
    if isinstance(v, (tuple, list)): return (v[0] + d, v[1] + d, v[2] + d, v[3] + d, v[4])
    return v + d


def is_pow2(c):
    c = F(c)
    n, d = c.numerator, c.denominator
    return (n & (n - 1) == 0) and (d & (d - 1) == 0)


def make_obligations(kind, c_or_d, name):
    def f(ops, outs):
        fa, fb = rfam.feeds(ops, outs, 'a'), rfam.feeds(ops, outs, 'b')
        per = ops[0][3]
        k = c_or_d
        if is_sym(k) and not O.sym(*[x for v, _ in fa[:1] for x in (v if isinstance(v, tuple) else (v,))]):
            # concrete confirmation: recover the factor / shift from the two fed streams
            va, vb = fa[0][0], fb[0][0]
            xa, xb = (va[3], vb[3]) if isinstance(va, tuple) else (va, vb)
            k = (xb / xa) if kind == 'scale' else (xb - xa)
        obs = []
        stream_a = [v for v, _ in fa]
        for i, ((_, x), (_, y)) in enumerate(zip(fa, fb)):
            for j, (p, q) in enumerate(zip(x, y)):
                if kind == 'scale': want = p * k if name in PRICE else p
                elif kind == 'shift': want = p + k if (name in SHIFT_MOVES and not (name == 'CE' and False)) else p
                lab = '%s %s: step %d out[%d]' % (name, 'x -> c*x' if kind == 'scale' else 'x -> x+d', i + 1, j)
                if O.sym(q, want):
                    if name in ('SD',) or (name == 'BB' and j > 0 and kind == 'scale'):
                        # compare through squares (sqrt is uninterpreted): deviations from the average
                        if name == 'SD':
                            bad = O.or_(O.not_(O.eq(q * q, want * want)), q < 0)
                        else:
                            hq, hw = q - y[0], want - (x[0] * k)
                            bad = O.not_(O.eq(hq * hq, hw * hw))
                        obs.append(Ob(lab, bad, bad))
                    else:
                        bad = O.not_(O.eq(q, want)); obs.append(Ob(lab, bad, bad))
                    continue
                if O.sym(*[z for v in stream_a for z in (v if isinstance(v, tuple) else (v,))]) or O.sym(k):
                    obs.append(Ob(lab, q != want, q != want)); continue
                rel = F(1, 10 ** 12) if (kind == 'scale' and is_pow2(k)) else F(1, 10 ** 9)
                if name in SCALE:
                    cn = cond_number(name, per[0], stream_a[:i + 1][-(per[0] + 1):]) if name in ('FAST_STOCH', 'ROC', 'ER', 'MFI', 'CCI') else F(1)
                    if cn is None or cn > 10 ** 6: obs.append(Ob(lab, False, False)); continue
                    tol = rel * SCALE[name] * max(cn, 1) * (i + 1)
                else:
                    mags = [abs(z) for v in stream_a[:i + 1] for z in (v[1:4] if isinstance(v, tuple) else (v,))]
                    tol = rel * max(mags) * (abs(k) if kind == 'scale' and name in PRICE else 1) * (i + 2) + (rel * abs(k) * (i + 2) if kind == 'shift' else 0)
                obs.append(Ob(lab, q != want, abs(q - want) > tol))
        return obs
    return f


def r_family(mir, name, mode, n, t, kind, k, seed, to):
    per = specs(name, n)
    mult = F(2) if IND[name]['mult'] else None
    stream = make_stream(mode, t)
    kk = z3.Real('k') if k == 'sym' else F(k)
    if kind == 'scale': s2 = [scale_val(v, kk, mode == 'bar') for v in stream]
    else: s2 = [shift_val(v, kk) for v in stream]
    ops = [('new', 'a', name, tuple(per), mult), ('new', 'b', name, tuple(per), mult)] + [o for v, w in zip(stream, s2) for o in (('feed', 'a', v), ('feed', 'b', w))]
    assume = stream_assumptions(stream, 'validbar' if mode == 'bar' else 'positive')
    if k == 'sym':
        assume += [kk > 0, kk <= 2 ** 40] if kind == 'scale' else [kk >= 0, kk <= 10 ** 9]
    fam = 'R:C14 %s %s n=%d t=%d %s by %s' % (name, mode, n, t, kind, 'a symbolic %s' % ('factor in (0, 2^40]' if kind == 'scale' else 'shift in [0, 1e9]') if k == 'sym' else str(F(k)))
    fn = make_obligations(kind, kk, name)
    rcore.SCALE_HINTS = [F(k)] if (kind == 'scale' and k != 'sym') else []
    r = run_family(mir, fam, ops, assume, fn, seed, to, witness=None,
                   bounds=dict(engine='R', indicator=name, input=mode, periods=per, t=t, transformation=kind, by='symbolic' if k == 'sym' else str(F(k)), inputs='positive prices / valid bars'))
    rcore.SCALE_HINTS = []
    return r


def negmin_family(mir, n, t, seed, to):
    """Maximum(x) == -Minimum(-x) exactly"""
    stream = make_stream('scalar', t)
    ops = [('new', 'a', 'MAX', (n,), None), ('new', 'b', 'MIN', (n,), None)] + [o for v in stream for o in (('feed', 'a', v), ('feed', 'b', -v))]

    def fn(ops_, outs_):
        fa, fb = rfam.feeds(ops_, outs_, 'a'), rfam.feeds(ops_, outs_, 'b')
        obs = []
        for i, ((_, x), (_, y)) in enumerate(zip(fa, fb)):
            bad = O.not_(O.eq(x[0], -y[0])) if O.sym(x[0], y[0]) else x[0] != -y[0]
            obs.append(Ob('Maximum(x) == -Minimum(-x) step %d' % (i + 1), bad, bad))
        return obs
    return run_family(mir, 'R:C14 Maximum(x) == -Minimum(-x) n=%d t=%d' % (n, t), ops, stream_assumptions(stream, 'any'), fn, seed, to, witness=None,
                      bounds=dict(engine='R', n=n, t=t, inputs='all reals'))


def main(chk):
    from vlib import mirsym, native
    mir = mirsym.dump_mir()
    native.build(); native.build('release')
    q = chk.tier == 'quick'
    to = 90 if q else 300
    ns = (1, 2, 3) if q else (1, 2, 3, 4)
    jobs = []
    factors = [F(1, 2 ** 40), F(2 ** 40), F(1, 3), F(7)] if q else [F(1, 2 ** 40), F(1, 2), F(2), F(2 ** 40), F(1, 3), F(7), F(1000), F(1, 10 ** 9)]
    for name in PRICE + DIMLESS:
        mode = 'scalar' if IND[name]['scalar'] else 'bar'
        for n in ns:
            if IND[name]['np'] == 0 and n > 1: continue
            if n > 2 and name in ('SLOW_STOCH', 'CE', 'SD', 'BB') and (q or n > 3): continue
            t = (2 * n + 2) if IND[name]['np'] else 5
            for c in (factors[:2] + factors[2:3] if (q and n > 1) else factors):
                jobs.append((r_family, (mir, name, mode, n, t, 'scale', c, chk.seed, to), {}))
            if name in ('SMA', 'EMA', 'WMA', 'MACD', 'MAD', 'TRUE_RANGE', 'ATR') and n <= 2:
                jobs.append((r_family, (mir, name, mode, n, t, 'scale', 'sym', chk.seed, to), {}))
            if name in SHIFT_MOVES + SHIFT_KEEPS:
                jobs.append((r_family, (mir, name, mode, n, t, 'shift', 'sym', chk.seed, to), {}))
    for n in ns: jobs.append((negmin_family, (mir, n, 2 * n + 3, chk.seed, to), {}))
    chk.add(run_jobs(jobs))
    hs = [k_negmin(n, n + 3) for n in ((1, 2, 3) if q else (1, 2, 3, 4))]
    for nm in ('SMA', 'EMA', 'MIN', 'MAX'):
        for kexp in ((-40, 40) if q else (-40, -1, 1, 40)):
            hs.append(k_pow2(nm, 2, 4, kexp))
    chk.add(kani.run_family_set('C14', hs, jobs=12, timeout_s=300 if q else 1800))
    chk.assumptions += ['engine R: exact reals: covariance is exact there; the 1e-12 / 1e-9 clauses are applied when a solver model is confirmed natively',
                        'scale factors concrete (2^-40, 2^40, 1/3, 7, ...) for indicators with comparisons or ratios, symbolic for the polynomial ones; shifts symbolic in [0, 1e9]']
    chk.notes += ['bit-for-bit power-of-two scaling beyond the Kani alphabet / t=4', 'RSI excluded as in the statement']


# ------------------------------------------------------------------------------------------------ engine K
from vlib import kani, native
from vlib.kani import KB, KOps


def k_negmin(n, t):
    """Maximum(x) == -Minimum(-x) exactly, every finite f64 stream (negation and comparisons only)"""
    b = KB('c14_negmin_n%d_t%d' % (n, t), unwind=n + 3, family='K:C14 Maximum(x) == -Minimum(-x) exactly, n=%d, every finite f64 stream of length %d' % (n, t),
           bounds=dict(engine='K', n=n, t=t, inputs='every finite f64'))
    k = KOps(b)
    k.new('a', 'MAX', [n]); k.new('m', 'MIN', [n])
    pairs = []
    for i in range(t):
        x = b.anyf('x%d' % i, finite=True)
        oa = k.feed('a', 'scalar', ('var', x, ('sym', 'x%d' % i)))
        k.n += 1
        om = 'o%d' % k.n
        b.emit('let %s = m.next(-%s).ob();' % (om, x))
        k.ops.append(('feed', 'm', (('neg', 'x%d' % i),))); k.outs.append(om)
        b.emit('assert!(f64::from_bits(%s[0]) == -f64::from_bits(%s[0]), "Maximum(x) != -Minimum(-x)");' % (oa, om))

    def confirm(vals):
        xs = [kani.hexf(vals['x%d' % i]) for i in range(t)]
        lines = ['new a MAX %d' % n, 'new m MIN %d' % n]
        for x in xs: lines += ['next a ' + native.f2hex(x), 'next m ' + native.f2hex(-x)]
        rep = native.run_script(lines)
        outs = [r for l, r in zip(lines, rep) if l.startswith('next')]
        for i in range(t):
            a, m = outs[2 * i], outs[2 * i + 1]
            if a[0] != 'out' or m[0] != 'out' or a[1][0] != -m[1][0]:
                return True, lines, 'Maximum(%d) = %r but -Minimum(-x) = %r after %r' % (n, a, m, xs[:i + 1])
        return False, lines, 'native agrees'
    b.confirm = confirm
    return b


def k_pow2(name, n, t, kexp):
    """multiplying every input by 2^k multiplies the output by 2^k bit for bit (inputs symbolic over an alphabet, no overflow/underflow)"""
    tab = [1.5, 0.1, 1000.25, 3.0]
    c = 2.0 ** kexp
    b = KB('c14_pow2_%s_n%d_k%s' % (name.lower(), n, str(kexp).replace('-', 'm')), unwind=n + 3,
           family='K:C14 %s n=%d: inputs scaled by 2^%d scale the output bit for bit, %d inputs symbolic over %r' % (name, n, kexp, t, tab),
           bounds=dict(engine='K', indicator=name, n=n, t=t, factor='2^%d' % kexp, inputs='each input symbolic over %r' % (tab,)))
    k = KOps(b)
    k.new('a', name, [n]); k.new('s', name, [n])
    for i in range(t):
        x = b.pick('x%d' % i, tab); k.tables['x%d' % i] = tab
        oa = k.feed('a', 'scalar', ('var', x, ('pick', 'x%d' % i)))
        k.n += 1
        os_ = 'o%d' % k.n
        b.emit('let %s = s.next(%s * %s).ob();' % (os_, x, kani.lit(c)))
        k.ops.append(('feed', 's', (('scaled', 'x%d' % i),))); k.outs.append(os_)
        b.emit('assert!(f64::from_bits(%s[0]) == f64::from_bits(%s[0]) * %s, "power-of-two scaling is not exact");' % (os_, oa, kani.lit(c)))

    def confirm(vals):
        xs = [tab[vals['x%d' % i]] for i in range(t)]
        lines = ['new a %s %d' % (name, n), 'new s %s %d' % (name, n)]
        for x in xs: lines += ['next a ' + native.f2hex(x), 'next s ' + native.f2hex(x * c)]
        rep = native.run_script(lines)
        outs = [r for l, r in zip(lines, rep) if l.startswith('next')]
        for i in range(t):
            a, s_ = outs[2 * i], outs[2 * i + 1]
            if a[0] != 'out' or s_[0] != 'out' or s_[1][0] != a[1][0] * c:
                return True, lines, '%s(%d): output on 2^%d-scaled inputs %r, scaled output %r' % (name, n, kexp, s_, a)
        return False, lines, 'native agrees'
    b.confirm = confirm
    return b
