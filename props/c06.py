"""C06  Serialize/deserialize at any point of a stream preserves all future outputs."""
from vlib import kani, native
from vlib.kani import KB, KOps, tyname
from vlib.inds import IND, ALL
from vlib.framework import fam_result
from props.c04 import specs, cont_values


import math
ALPHA = [[1.5, -2.25, 1e16, math.inf], [0.75, 3.0, -1e16, float('nan')], [2.5, 1e16, -math.inf, 0.0], [1.25, float('nan'), 1e16, -0.5]]


def k_harness(name, mode, n, ckpt, seed, twice=False, outputs=True, concrete=False, required=True, variant='fin'):
    """ckpt: number of history inputs before the checkpoint, or 'reset' (inputs then reset).
    outputs=False: bytes fixpoint only, history = every f64 bit pattern (data movement only);
    outputs=True: history symbolic over a 4-value alphabet (incl. 1e16 and a non-finite value), then the
    continuation is fed to the original and to the restored instance and compared."""
    per = specs(name, n)
    tag = 'reset' if ckpt == 'reset' else 'h%d' % ckpt
    table = ALPHA[seed % len(ALPHA)]
    import math as _m
    fin = [x for x in table if _m.isfinite(x)]
    nonfin = [x for x in table if not _m.isfinite(x)][0]
    def conc_val(i, nh_):
        if variant == 'zeros': return 0.0
        if variant == 'nonfin' and i == nh_ - 1: return nonfin          # the non-finite value is still inside the window at the checkpoint
        return fin[i % len(fin)]
    vtag = '' if (not concrete or variant == 'fin') else '_' + variant
    b = KB('c06_%s_%s_%s_n%d_%s%s%s' % (('outc' if concrete else 'out') if outputs else 'bytes', name.lower(), mode, n, tag, '_x2' if twice else '', vtag), unwind=max(per + [4]) * 2 + 30, required=required,
           family='K:C06 %s %s periods=%s checkpoint=%s%s: serde round trip through the derived impls (token-stream format), %s' % (name, mode, per, tag, ' (two round trips)' if twice else '',
                                                                                   ('bytes fixpoint + future outputs' + ((' (concrete history: %s)' % {'fin': 'finite values incl. +-1e16', 'nonfin': 'finite values, then a non-finite one still in the window', 'zeros': 'all zeros'}[variant]) if concrete else '')) if outputs else 'bytes fixpoint, every f64'),
           bounds=dict(engine='K', indicator=name, input=mode, periods=per, checkpoint=tag,
                       history=(('concrete values drawn from %r (rotated by seed)' % (table,)) if concrete else ('each input symbolic over the alphabet %r' % (table,))) if outputs else 'every f64 bit pattern',
                       continuation=('%d fixed finite inputs' % (n + 2)) if outputs else 'none', round_trips=2 if twice else 1))
    k = KOps(b)
    k.new('a', name, per)
    nh = (n + 1) if ckpt == 'reset' else ckpt
    for i in range(nh): k.feed('a', mode, (('lit', conc_val(i, nh)) if concrete else ('pick', table)) if outputs else 'any', 'h%d' % i)
    if ckpt == 'reset': k.reset('a')
    b.emit('let bytes = to_tok(&a).unwrap();')
    b.emit('let mut r: %s = from_tok(&bytes).unwrap();' % tyname(name))
    k.ops.append(('serde', 'a', 'r')); k.outs.append(None)
    if twice:
        b.emit('let bytes1 = to_tok(&r).unwrap();')
        b.emit('let mut r: %s = from_tok(&bytes1).unwrap();' % tyname(name))
        k.ops.append(('serde', 'r', 'r')); k.outs.append(None)
    b.emit('let bytes2 = to_tok(&r).unwrap();')
    b.emit('assert!(bytes.n == bytes2.n, "re-serialized length differs");')
    b.emit('let mut i = 0; while i < bytes.n { assert!(bytes.buf[i] == bytes2.buf[i], "serialize(deserialize(tokens)) != tokens"); i += 1; }')
    if IND[name]['period']: b.emit('assert!(r.period() == a.period(), "period() changed by the round trip");')
    cv = cont_values(n, seed) if outputs else []
    for j, x in enumerate(cv):
        pol = ('lit', x) if mode == 'scalar' else [('lit', x), ('lit', x + 0.5), ('lit', x - 0.25), ('lit', x + 0.125), ('lit', 10.0 + j)]
        oa = k.feed('a', mode, pol); orr = k.feed('r', mode, pol)
        b.emit('assert!(same(%s, %s), "restored instance diverges from the original");' % (oa, orr))

    def confirm(vals):
        ops = k.concrete(vals)
        for prof in ('dev', 'release'):
            lines, outs = kani.native_ops(ops, prof)
            if any(o in ('panic', 'err') for o in outs): return True, lines, 'native round trip fails (panic/deserialize error) (%s profile): %r' % (prof, [o for o in outs if isinstance(o, str)])
            oa = [o for op, o in zip(ops, outs) if op[0] == 'feed' and op[1] == 'a'][-len(cv):] if cv else []
            orr = [o for op, o in zip(ops, outs) if op[0] == 'feed' and op[1] == 'r']
            for i, (x, y) in enumerate(zip(oa, orr)):
                if not all(kani.same_f(p, q) for p, q in zip(x, y)):
                    return True, lines, 'continuation step %d: original %r, restored %r (%s profile)' % (i + 1, x, y, prof)
            lines2 = lines[:lines.index([l for l in lines if l.startswith('serde')][0]) + 1] + ['serbytes a', 'serbytes r']
            rep = native.run_script(lines2, prof)
            if rep[-1] != rep[-2]: return True, lines2, 'serialized bytes differ after the round trip (%s profile)' % prof
        return False, lines, 'native round trip agrees'
    b.confirm = confirm
    return b


def h_dataitem():
    b = KB('c06_dataitem', unwind=12, family='K:C06 DataItem serde round trip to an equal value, every accepted bar',
           bounds=dict(engine='K', values='every 5-tuple of f64 bit patterns accepted by the builder'))
    vs = [b.anyf(f) for f in 'ohlcv']
    b.emit('let r = DataItem::builder().open(%s).high(%s).low(%s).close(%s).volume(%s).build();' % tuple(vs))
    b.emit('kani::assume(r.is_ok()); let d = r.unwrap();')
    b.emit('let t = to_tok(&d).unwrap(); let e: DataItem = from_tok(&t).unwrap();')
    b.emit('assert!(e == d, "DataItem round trip is not equal");')
    b.emit('assert!(e.open().to_bits() == d.open().to_bits() && e.high().to_bits() == d.high().to_bits() && e.low().to_bits() == d.low().to_bits() && e.close().to_bits() == d.close().to_bits() && e.volume().to_bits() == d.volume().to_bits(), "DataItem fields changed");')
    def confirm(vals):
        lines = ['diserde ' + ' '.join(vals[f] for f in 'ohlcv')]
        for prof in ('dev', 'release'):
            rep = native.run_script(lines, prof)[0]
            if rep[0] != 'ok' and not (rep[0] == 'err' and rep[1].startswith('DataItem')):
                return True, lines, 'DataItem %r does not round-trip through bincode: %r (%s)' % ([kani.hexf(vals[f]) for f in 'ohlcv'], rep, prof)
        return False, lines, 'native round trip ok'
    b.confirm = confirm
    return b


def main(chk):
    native.build(); native.build('release')
    q = chk.tier == 'quick'
    hs = []
    CHEAP = ('SMA', 'WMA', 'MIN', 'MAX', 'ROC', 'ER', 'TRUE_RANGE', 'FAST_STOCH')       # alphabet-symbolic histories finish within the quick cap
    HARD = ('CE', 'SLOW_STOCH')                                                        # CBMC does not finish on these nested structs (see DESIGN.md)
    for name in ALL:
        mode = 'scalar' if IND[name]['scalar'] else 'bar'
        req = name not in HARD
        if q and name in HARD: continue
        for n in ((2,) if q else (2, 3)):
            if IND[name]['np'] == 0 and n > 2: continue
            if name in HARD and n > 2: continue
            for ck in ((0, 1, n + 1, 'reset') if q else (0, 1, n, n + 1, 'reset')):
                hs.append(k_harness(name, mode, n, ck, chk.seed, concrete=True, required=req))
            for var in ('nonfin', 'zeros'):          # values that "is this the default / empty?" guesses get wrong
                hs.append(k_harness(name, mode, n, n + 1, chk.seed, concrete=True, required=req, variant=var))
            hs.append(k_harness(name, mode, n, n + 1, chk.seed, outputs=False, required=req))
            if name in CHEAP or (not q and name in ('EMA', 'MACD', 'OBV', 'ATR', 'MAD')):
                hs.append(k_harness(name, mode, n, n + 1, chk.seed, required=(name in CHEAP)))
            if not q: hs.append(k_harness(name, mode, n, n + 1, chk.seed, twice=True, concrete=True, required=req))
    hs.append(h_dataitem())
    import sys
    if len(sys.argv) > 3 and sys.argv[2] == '--only': hs = [h for h in hs if sys.argv[3] in h.name]
    chk.add(kani.run_family_set('C06', hs, jobs=14, timeout_s=400 if q else 1200))
    chk.assumptions += ['the serde-derived Serialize/Deserialize impls of /repo are compiled into the harness and driven through a minimal non-self-describing token format (same field order, length-prefixed sequences, tagged options as bincode) because bincode byte handling does not finish in CBMC; every counterexample is confirmed natively with the real bincode 1.3',
                        'history values arbitrary f64; continuation finite and fixed (the restored state is otherwise unconstrained by the harness)']
    chk.notes += ['quick tier: ChandelierExit and SlowStochastic have no serde harness (CBMC does not finish on them; thorough tier tries with a long cap, not required)', 'periods above the bound; histories longer than n+2 before the checkpoint', 'DataItem round trip (engine K harness c06_dataitem when registered)']
