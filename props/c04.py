"""C04  reset() returns every indicator to a state indistinguishable from a fresh one."""
from fractions import Fraction as F
import z3
from vlib import oracles as O, rcore, rfam
from vlib.rfam import Ob, run_family, make_stream, stream_assumptions
from vlib.framework import fam_result, run_jobs
from vlib.mirsym import is_sym, R
from vlib.inds import IND, ALL

REL = F(1, 10 ** 12)


def specs(name, n):
    np_ = IND[name]['np']
    return [n, n + 1, 2][:np_]


def obligations(ops, outs):
    """slot a: histories/resets then continuation; slot b: fresh instance fed the continuation; pairwise equal"""
    nb = sum(1 for op in ops if op[0] == 'feed' and op[1] == 'b')
    fa = rfam.feeds(ops, outs, 'a')[-nb:]
    fb = rfam.feeds(ops, outs, 'b')
    name = ops[0][2]
    obs = []
    for i, ((_, oa), (_, ob)) in enumerate(zip(fa, fb)):
        for k, (a, b) in enumerate(zip(oa, ob)):
            lab = '%s continuation step %d out[%d]: reset instance == fresh instance' % (name, i + 1, k)
            if O.sym(a, b):
                bad = O.not_(O.eq(a, b)); obs.append(Ob(lab, bad, bad))
            else:
                obs.append(Ob(lab, a != b, abs(a - b) > REL * max(abs(a), abs(b))))
    return obs


def r_family(mir, name, mode, n, hist, cont, shape, seed, to):
    """shape: 'h-r' history,reset | 'r' reset on fresh | 'h-r-r' double reset | 'h-r-h-r' two histories"""
    per = specs(name, n)
    mult = z3.Real('mult') if IND[name]['mult'] else None
    ops = [('new', 'a', name, tuple(per), mult)]
    allv = []
    if shape in ('h-r', 'h-r-r', 'h-r-h-r'):
        h = make_stream(mode, hist, 'h'); allv += h
        ops += [('feed', 'a', v) for v in h] + [('reset', 'a')]
        if shape == 'h-r-r': ops.append(('reset', 'a'))
        if shape == 'h-r-h-r':
            g = make_stream(mode, max(1, hist - 1), 'g'); allv += g
            ops += [('feed', 'a', v) for v in g] + [('reset', 'a')]
    else:
        ops.append(('reset', 'a'))
    c = make_stream(mode, cont, 'c'); allv += c
    ops += [('feed', 'a', v) for v in c] + [('new', 'b', name, tuple(per), mult)] + [('feed', 'b', v) for v in c]
    kind = 'validbar' if mode == 'bar' else 'positive'
    assume = stream_assumptions(allv, kind) + ([mult >= -1000, mult <= 1000] if mult is not None else [])
    fam = 'R:C04 %s %s periods=%s %s history=%d continuation=%d' % (name, mode, per, shape, hist, cont)

    def sym_obs(ops_, outs_, insts, ex):
        obs = obligations(ops_, outs_)
        a = insts['a']
        if IND[name]['period']:
            obs.append(Ob('%s period() after reset == constructor argument' % name, O.not_(O.eq(a.period(), per[0])), None))
        if IND[name]['mult']:
            obs.append(Ob('%s multiplier() after reset == constructor argument' % name, O.not_(O.eq(a.multiplier(), mult)), None))
        return obs
    return run_family(mir, fam, ops, assume, obligations, seed, to, sym_obs_fn=sym_obs, witness=None,
                      bounds=dict(engine='R', indicator=name, input=mode, periods=per, shape=shape, history=hist, continuation=cont,
                                  inputs='positive reals / valid bars, all values symbolic'))


def main(chk):
    from vlib import mirsym, native
    mir = mirsym.dump_mir()
    native.build(); native.build('release')
    q = chk.tier == 'quick'
    to = 90 if q else 300
    jobs = []
    for name in ALL:
        modes = (['scalar'] if IND[name]['scalar'] else ['bar']) + (['bar'] if name in ('FAST_STOCH', 'TRUE_RANGE', 'KC') else [])
        for mode in modes:
            for n in ((1, 2, 3) if q else (1, 2, 3, 4)):
                if IND[name]['np'] == 0 and n > 1: continue
                cont = n + 2
                for shape, hist in (('h-r', n + 2), ('h-r', 1), ('r', 0), ('h-r-r', n), ('h-r-h-r', n + 1)):
                    if q and shape in ('h-r-r',) and n > 2: continue
                    jobs.append((r_family, (mir, name, mode, n, hist, cont, shape, chk.seed, to), {}))
    chk.add(run_jobs(jobs))
    hs = []
    for name in ALL:
        mode = 'scalar' if IND[name]['scalar'] else 'bar'
        for n in ((1, 2) if q else (1, 2, 3)):
            if IND[name]['np'] == 0 and n > 1: continue
            hs.append(k_harness(name, mode, n, chk.seed))
            if name in ('MIN', 'MAX'): hs.append(k_harness(name, mode, n, chk.seed, anycont=True))
    for n in (3,): hs += [k_harness('MIN', 'scalar', n, chk.seed, anycont=True), k_harness('MAX', 'scalar', n, chk.seed, anycont=True)]
    chk.add(kani.run_family_set('C04', hs, jobs=14, timeout_s=240 if q else 1800))
    chk.assumptions += ['engine R: histories and continuations are finite reals (NaN/inf histories are engine K\'s part)',
                        'continuation length n+2 flushes the window']
    chk.notes += ['histories longer than n+2 operations', 'periods above the bound']

# ------------------------------------------------------------------------------------------------
# Engine K: histories with NaN / +-inf / extremes, then reset, then a fixed finite continuation
from vlib import kani
from vlib.kani import KB, KOps


def cont_values(n, seed):
    base = [1.5, 2.25, 0.75, 3.0, 1.25, 2.5, 0.5, 1.75, 2.0, 3.5]
    k = seed % len(base)
    return (base[k:] + base[:k])[:n + 2]


def k_harness(name, mode, n, seed, anycont=False):
    per = specs(name, n)
    b = KB('c04_%s_%s_%s_n%d' % ('anyc' if anycont else 'hist', name.lower(), mode, n), unwind=max(per + [1]) + 3, stub_sqrt=False,
           family='K:C04 %s %s periods=%s: arbitrary-f64 history, reset, %s continuation == fresh' % (name, mode, per, 'arbitrary-f64 (NaN, inf included)' if anycont else 'finite'),
           bounds=dict(engine='K', indicator=name, input=mode, periods=per, history='%d inputs, every f64 bit pattern (NaN, +-inf, +-f64::MAX, subnormals)' % (n + 1),
                       continuation='%d fixed finite inputs' % (n + 2)))
    k = KOps(b)
    k.new('a', name, per)
    for i in range(n + 1): k.feed('a', mode, 'any', 'h%d' % i)
    k.reset('a')
    k.new('f', name, per)
    cv = cont_values(n, seed)
    pairs = []
    for j, x in enumerate(cv):
        pol = ('lit', x) if mode == 'scalar' else [('lit', x), ('lit', x + 0.5), ('lit', x - 0.25), ('lit', x + 0.125), ('lit', 10.0 + j)]
        if anycont:
            v = b.anyf('c%d' % j); pol = ('var', v, ('sym', 'c%d' % j))
        oa = k.feed('a', mode, pol); of = k.feed('f', mode, pol)
        pairs.append((oa, of))
        b.emit('assert!(same(%s, %s), "output after reset differs from a fresh instance");' % (oa, of))

    def confirm(vals):
        ops = k.concrete(vals)
        for prof in ('dev', 'release'):
            lines, outs = kani.native_ops(ops, prof)
            oa = [o for op, o in zip(ops, outs) if op[0] == 'feed' and op[1] == 'a'][-len(cv):]
            of = [o for op, o in zip(ops, outs) if op[0] == 'feed' and op[1] == 'f']
            for i, (x, y) in enumerate(zip(oa, of)):
                if x == 'panic' or y == 'panic': return True, lines, 'native panic'
                if not all(kani.same_f(p, q) for p, q in zip(x, y)):
                    return True, lines, 'continuation step %d: reset instance returns %r, fresh instance %r (%s profile)' % (i + 1, x, y, prof)
        return False, lines, 'native outputs agree'
    b.confirm = confirm
    return b
