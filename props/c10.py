"""C10  Feeding a bar equals feeding its documented price field; other fields ignored."""
from fractions import Fraction as F
import z3
from vlib import oracles as O, rcore, rfam
from vlib.rfam import Ob, run_family, make_stream, stream_assumptions
from vlib.framework import fam_result, run_jobs
from vlib.mirsym import is_sym, R
from vlib.inds import IND, ALL, BAR_READS, BAR_IDX
from props.c04 import specs

REL = F(1, 10 ** 12)
FIELD = {'SMA': 3, 'EMA': 3, 'WMA': 3, 'SD': 3, 'MAD': 3, 'RSI': 3, 'MACD': 3, 'PPO': 3, 'ER': 3, 'BB': 3, 'ROC': 3, 'MIN': 2, 'MAX': 1}
ONEPRICE = ('FAST_STOCH', 'SLOW_STOCH', 'TRUE_RANGE', 'ATR', 'KC')


def pair_obligations(what):
    def f(ops, outs):
        fa, fb = rfam.feeds(ops, outs, 'a'), rfam.feeds(ops, outs, 'b')
        obs = []
        for i, ((_, x), (_, y)) in enumerate(zip(fa, fb)):
            for k, (p, q) in enumerate(zip(x, y)):
                lab = '%s: step %d out[%d]' % (what, i + 1, k)
                if O.sym(p, q):
                    bad = O.not_(O.eq(p, q)); obs.append(Ob(lab, bad, bad))
                else:
                    obs.append(Ob(lab, p != q, abs(p - q) > REL * max(abs(p), abs(q), F(1, 10 ** 300))))
        return obs
    return f


def r_family(mir, name, n, t, kind, seed, to):
    """kind: 'field'  bar path == scalar path on the documented field (bar fields independent)
             'oneprice' one-price bar == scalar path
             'ignored' two bar streams differing in every field the indicator is not documented to read
             'dataitem' DataItem == any other implementor carrying the same numbers"""
    per = specs(name, n)
    mult = z3.Real('mult') if IND[name]['mult'] else None
    bars = make_stream('bar', t, 'b')
    new_a, new_b = ('new', 'a', name, tuple(per), mult), ('new', 'b', name, tuple(per), mult)
    assume = stream_assumptions(bars, 'any') + ([mult >= -1000, mult <= 1000] if mult is not None else [])
    if kind == 'field':
        ops = [new_a, new_b] + [o for b in bars for o in (('feed', 'a', b), ('feed', 'b', b[FIELD[name]]))]
        what = '%s bar path == scalar path on %s' % (name, 'ohlcv'[FIELD[name]])
        if name in ('RSI', 'PPO', 'ROC', 'ER'): assume += [b[3] > 0 for b in bars]
    elif kind == 'oneprice':
        xs = rcore.reals('x', t)
        assume = stream_assumptions(xs, 'positive') + ([mult >= -1000, mult <= 1000] if mult is not None else [])
        vols = rcore.reals('v', t); assume += rcore.bounds(vols)
        ops = [new_a, new_b] + [o for x, v in zip(xs, vols) for o in (('feed', 'a', (x, x, x, x, v)), ('feed', 'b', x))]
        what = '%s one-price bar == scalar path' % name
    elif kind == 'ignored':
        reads = BAR_READS[name]
        bars2 = []
        for i, b in enumerate(bars):
            nb = list(b)
            for f in 'ohlcv':
                if f not in reads: nb[BAR_IDX[f]] = z3.Real('alt%d_%s' % (i, f))
            bars2.append(tuple(nb))
        assume += stream_assumptions(bars2, 'any')
        if name in ('RSI', 'PPO', 'ROC', 'ER', 'MFI', 'CCI', 'OBV', 'FAST_STOCH', 'SLOW_STOCH'): assume += [x > 0 for b in bars for x in (b[1], b[2], b[3])] + [b[4] >= 0 for b in bars]
        ops = [new_a, new_b] + [o for b, c in zip(bars, bars2) for o in (('feed', 'a', b), ('feed', 'b', c))]
        what = '%s ignores the fields it is not documented to read (reads only %s)' % (name, reads)
    else:
        assume = stream_assumptions(bars, 'validbar') + ([mult >= -1000, mult <= 1000] if mult is not None else [])
        ops = [new_a, new_b] + [o for b in bars for o in (('feed', 'a', b), ('feed_di', 'b', b))]
        what = '%s fed DataItem == fed any other implementor' % name
    fam = 'R:C10 %s periods=%s t=%d' % (what, per, t)
    fn = pair_obligations(what)
    return run_family(mir, fam, ops, assume, fn, seed, to, witness=None,
                      bounds=dict(engine='R', indicator=name, periods=per, t=t, kind=kind, inputs='five independent symbolic reals per bar' if kind != 'dataitem' else 'valid bars'))


def main(chk):
    from vlib import mirsym, native
    mir = mirsym.dump_mir()
    native.build(); native.build('release')
    q = chk.tier == 'quick'
    to = 90 if q else 300
    jobs = []
    for name in ALL:
        for n in ((1, 2, 3) if q else (1, 2, 3, 4)):
            if IND[name]['np'] == 0 and n > 1: continue
            t = n + 2
            if name in FIELD: jobs.append((r_family, (mir, name, n, t, 'field', chk.seed, to), {}))
            if name in ONEPRICE: jobs.append((r_family, (mir, name, n, t, 'oneprice', chk.seed, to), {}))
            jobs.append((r_family, (mir, name, n, t, 'ignored', chk.seed, to), {}))
            if n <= 2: jobs.append((r_family, (mir, name, n, t, 'dataitem', chk.seed, to), {}))
    chk.add(run_jobs(jobs))
    hs = [k_ignored(nm, 2, 4 if nm in ('EMA', 'RSI', 'MACD', 'PPO', 'SD', 'BB', 'ER', 'MAD') else 6) for nm in (('SMA', 'EMA', 'WMA', 'MIN', 'MAX', 'ROC') if q else tuple(FIELD))]
    chk.add(kani.run_family_set('C10', hs, jobs=8, timeout_s=240 if q else 1800))
    chk.assumptions += ['price getters are pure (a bar is five plain numbers); engine R exact reals', 'bar fields vary independently (not only consistent OHLC)']
    chk.notes += [ 'periods above the bound']


# ------------------------------------------------------------------------------------------------ engine K
from vlib import kani, native
from vlib.kani import KB, KOps


def k_ignored(name, n, t):
    """bar path with EVERY f64 bit pattern (NaN, inf) in the fields the indicator is not documented to read
    == scalar path on the documented field, bit for bit"""
    fi = FIELD[name]
    b = KB('c10_ignored_%s_n%d' % (name.lower(), n), unwind=n + 3,
           family='K:C10 %s n=%d: bar path (ignored fields any f64 incl. NaN/inf) == scalar path on %s, %d steps' % (name, n, 'ohlcv'[fi], t),
           bounds=dict(engine='K', indicator=name, n=n, t=t, read_field='every finite f64' if name in ('MIN', 'MAX') else 'symbolic over {1.5, 0.1, 1000.25, 0.0, 1e17}', ignored_fields='every f64 bit pattern'))
    k = KOps(b)
    k.new('a', name, specs(name, n)); k.new('s', name, specs(name, n))
    exact = name in ('MIN', 'MAX')
    TABX = [1.5, 0.1, 1000.25, 0.0, 1e17]
    for i in range(t):
        if exact:
            x = b.anyf('x%d' % i, finite=True); d = ('sym', 'x%d' % i)
        else:                                      # twin float arithmetic on full-range values does not finish in CBMC: alphabet for the read field
            x = b.pick('x%d' % i, TABX); k.tables['x%d' % i] = TABX; d = ('pick', 'x%d' % i)
        pols = []
        for j, f in enumerate('ohlcv'):
            pols.append(('var', x, d) if j == fi else 'any')
        oa = k.feed('a', 'bar', pols, 'b%d' % i)
        os_ = k.feed('s', 'scalar', ('var', x, d))
        b.emit('assert!(same(%s, %s), "bar path differs from the scalar path on the documented field");' % (oa, os_))

    def confirm(vals):
        ops = k.concrete(vals)
        for prof in ('dev', 'release'):
            lines, outs = kani.native_ops(ops, prof)
            xa = [o for op, o in zip(ops, outs) if op[0] == 'feed' and op[1] == 'a']
            xs = [o for op, o in zip(ops, outs) if op[0] == 'feed' and op[1] == 's']
            for i, (p_, q_) in enumerate(zip(xa, xs)):
                if p_ == 'panic' or q_ == 'panic' or not all(kani.same_f(u, v) for u, v in zip(p_, q_)):
                    return True, lines, '%s step %d: bar path %r, scalar path %r (%s)' % (name, i + 1, p_, q_, prof)
        return False, lines, 'native paths agree'
    b.confirm = confirm
    return b
