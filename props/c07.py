"""C07  Bounded oscillators stay inside their documented range."""
from fractions import Fraction as F
import z3
from vlib import oracles as O, rcore, rfam
from vlib.rfam import Ob, run_family, make_periods, make_stream, stream_assumptions, ops_stream
from vlib.framework import fam_result, run_jobs
from vlib.mirsym import is_sym

SLACK = F(1, 10 ** 9)


def in_range(label, out, lo, hi, guard, slack):
    if O.sym(out, guard):
        bad = O.and_(guard, O.or_(out < lo, out > hi))
        return Ob(label, bad, bad)
    if not guard: return Ob(label, False, False)
    return Ob(label, out < lo or out > hi, out < lo - slack or out > hi + slack)


def nz(d):
    return O.not_(O.eq(d, F(0)))


def obligations(ops, outs):
    _, _, name, periods, _ = ops[0]
    fo = rfam.feeds_since_reset(ops, outs, 'a')
    stream = [v for v, _ in fo]
    bars = isinstance(stream[0], (tuple, list))
    n = periods[0]
    obs = []
    if name == 'RSI': ref = O.rsi_series(stream, O.alpha_of(n))
    elif name == 'ER': ref = O.er_series(stream, n)
    elif name == 'MFI': ref = O.mfi_series(stream, n)
    for i, (_, o) in enumerate(fo):
        lab = '%s step %d in range' % (name, i + 1)
        if name in ('RSI',): obs.append(in_range(lab, o[0], 0, 100, nz(ref[i][1]), SLACK))
        elif name in ('FAST_STOCH', 'SLOW_STOCH'): obs.append(in_range(lab, o[0], 0, 100, True, SLACK))
        elif name == 'ER': obs.append(in_range(lab, o[0], 0, 1, nz(ref[i][1]), SLACK))
        elif name == 'MFI':
            den = ref[i][1]
            if i == 0:
                obs.append(in_range(lab, o[0], 0, 100, True, SLACK)); continue
            if O.sym(den, o[0]):
                obs.append(in_range(lab, o[0], 0, 100, nz(den), SLACK))
            else:
                # slack 100*tau(t)*c, c = largest single-bar money flow since reset / window's total flow; applies when c <= 1000
                flows = [O.typical(b) * b[4] for b in stream[1:i + 1]]
                tot = den / 1 if False else None
                wf = ref[i][1]            # pos+neg of the window = total flow of the window
                if wf == 0: obs.append(Ob(lab, False, False)); continue
                c = max([abs(x) for x in flows] + [F(0)]) / abs(wf)
                if c > 1000: obs.append(Ob(lab, False, False)); continue
                obs.append(in_range(lab, o[0], 0, 100, True, max(SLACK, 100 * O.tau(i + 1) * c)))
    return obs


def r_family(mir, name, mode, spec, t, seed, to, reset_prefix=0):
    ps, passume = make_periods(spec)
    stream = make_stream(mode, t)
    ops = ops_stream(name, ps, None, stream)
    assume = passume + stream_assumptions(stream, 'validbar' if mode == 'bar' else 'positive')
    if reset_prefix:
        pre = make_stream(mode, reset_prefix, 'h'); assume += stream_assumptions(pre, 'validbar' if mode == 'bar' else 'positive')
        ops = rfam.with_reset_prefix(ops, pre)
    fam = 'R:C07 %s %s periods=%s t=%d%s' % (name, mode, ','.join(map(str, spec)), t, ' after %d inputs and a reset' % reset_prefix if reset_prefix else '')
    wit = lambda ops_, outs_, insts_, ex_: z3.BoolVal(True)
    return run_family(mir, fam, ops, assume, obligations, seed, to, exec_assume=passume, int_vars=[p for p in ps if is_sym(p)],
                      witness='perturb_pm',
                      bounds=dict(engine='R', indicator=name, input=mode, periods=spec, t=t,
                                  inputs='positive reals <= 1e12' if mode == 'scalar' else 'valid bars (0 < low <= open,close <= high), volume >= 0'))


def main(chk):
    from vlib import mirsym, native
    mir = mirsym.dump_mir()
    native.build(); native.build('release')
    q = chk.tier == 'quick'
    ns = (1, 2, 3, 4) if q else (1, 2, 3, 4, 5)
    to = 90 if q else 300
    tf = (lambda n: 2 * n + 3) if q else (lambda n: 3 * n + 3)
    jobs = []
    J = lambda *a, **k: jobs.append((r_family, (mir,) + a + (chk.seed, to), k))
    for n in ns[:3]:
        for nm, md in (('RSI', 'scalar'), ('FAST_STOCH', 'scalar'), ('ER', 'scalar'), ('MFI', 'bar')): J(nm, md, [n], tf(n), reset_prefix=n + 2)
        J('SLOW_STOCH', 'scalar', [n, 2], tf(n), reset_prefix=n + 2)
    for n in ns:
        if not (q and n > 3): J('RSI', 'scalar', [n], tf(n))
        J('FAST_STOCH', 'scalar', [n], tf(n)); J('FAST_STOCH', 'bar', [n], tf(n))
        J('ER', 'scalar', [n], tf(n)); J('MFI', 'bar', [n], tf(n))
        for e in (1, 2, 3):
            if n <= 3 or not q:
                J('SLOW_STOCH', 'scalar', [n, e], tf(n)); J('SLOW_STOCH', 'bar', [n, e], tf(n))
    chk.add(run_jobs(jobs))
    hs = [k_er_range(2, 6, chk.seed), k_er_range(2, 7, chk.seed, tab=[250000.0, 123456.789, 1.0, 1.0001, 1.0002, 1.0003, 1.0004], tag='_pips')] + ([k_er_range(2, 7, chk.seed), k_er_range(3, 7, chk.seed)] if not q else [])
    chk.add(kani.run_family_set('C07', hs, jobs=4, timeout_s=300 if q else 1200))
    chk.assumptions += ['f64 arithmetic modelled as exact real arithmetic in engine R: the range is proved exactly (no slack needed) in the reals',
                        'positive prices / valid bars; claim applies where the reference denominator is non-zero']
    chk.notes += ['the 1e-9 rounding slack itself for full-range floating-point inputs', 'periods above the bound']


# ------------------------------------------------------------------------------------------------ engine K
from vlib import kani, native
from vlib.kani import KB, KOps

ER_TAB = [1.0, 1.0001, 250000.0, 1.0002]


def k_er_range(n, t, seed, tab=None, tag=''):
    """bit-precise: an outlier passing through the window must not leave residue that pushes ER outside [0, 1] (+1e-9)"""
    tab = tab or (ER_TAB[seed % len(ER_TAB):] + ER_TAB[:seed % len(ER_TAB)])
    b = KB('c07_er_range_n%d_t%d%s' % (n, t, tag), unwind=n + 4,
           family='K:C07 ER n=%d: %d inputs symbolic over an alphabet with one-pip moves and a 2.5e5 outlier, output in [0, 1+1e-9] or NaN (0/0 is C08)' % (n, t),
           bounds=dict(engine='K', indicator='ER', n=n, t=t, inputs='each input symbolic over %r' % (tab,)))
    k = KOps(b)
    k.new('a', 'ER', [n])
    idx = []
    for i in range(t):
        v = b.pick('x%d' % i, tab); k.tables['x%d' % i] = tab
        o = k.feed('a', 'scalar', ('var', v, ('pick', 'x%d' % i)))
        b.emit('{ let r = f64::from_bits(%s[0]); assert!(r != r || (r >= 0.0 && r <= 1.0 + 1e-9), "EfficiencyRatio outside [0, 1]"); }' % o)
        idx.append(len(k.ops) - 1)

    def confirm(vals):
        ops = k.concrete(vals)
        for prof in ('dev', 'release'):
            lines, res = kani.native_ops(ops, prof)
            for j in idx:
                r = res[j]
                if r == 'panic' or (r[0] == r[0] and not (0.0 <= r[0] <= 1.0 + 1e-9)):
                    return True, lines, 'ER(%d) returns %r after %r (%s)' % (n, r, [tab[vals['x%d' % q]] for q in range(t)], prof)
        return False, lines, 'native in range'
    b.confirm = confirm
    return b
