"""C11  Constructors reject exactly period 0; accessors, Display, Default are faithful."""
import itertools
from fractions import Fraction as F
import z3
from vlib import oracles as O, rcore, rfam, native, kani
from vlib.rfam import Ob
from vlib.kani import KB, ctor, tyname
from vlib.framework import fam_result, run_jobs
from vlib.mirsym import Executor, Unsupported, PathDead, is_sym, R, EnumV, Agg, Arr, Ptr, conc
from vlib.inds import IND, ALL, RInst

ALLOC_FREE = ('EMA', 'RSI', 'ATR', 'MACD', 'PPO', 'KC')
UMAX = 2 ** 64 - 1
DISPLAY = {'SMA': 'SMA({0})', 'EMA': 'EMA({0})', 'WMA': 'WMA({0})', 'SD': 'SD({0})', 'MAD': 'MAD({0})', 'RSI': 'RSI({0})', 'MIN': 'MIN({0})',
           'MAX': 'MAX({0})', 'FAST_STOCH': 'FAST_STOCH({0})', 'SLOW_STOCH': 'SLOW_STOCH({0}, {1})', 'TRUE_RANGE': 'TRUE_RANGE()', 'ATR': 'ATR({0})',
           'MACD': 'MACD({0}, {1}, {2})', 'PPO': 'PPO({0}, {1}, {2})', 'CCI': 'CCI({0})', 'ER': 'ER({0})', 'BB': 'BB({0}, {m})', 'CE': 'CE({0}, {m})',
           'KC': 'KC({0}, {m})', 'ROC': 'ROC({0})', 'MFI': 'MFI({0})', 'OBV': 'OBV'}


def native_ctor(name, periods, mult):
    """-> list of (profile, reply)"""
    out = []
    for prof in ('dev', 'release'):
        lines = [native.new_cmd('a', name, periods, mult)]
        if all(p > 0 for p in periods):
            if IND[name]['period']: lines.append('period a')
            if IND[name]['mult']: lines.append('mult a')
            lines.append('display a')
        try:
            rep = native.run_script(lines, prof)
        except RuntimeError as e:
            rep = [('crash', str(e)[:100])]
        out.append((prof, lines, rep))
    return out


def fmt_mult(m):
    return ('%r' % m).rstrip('0').rstrip('.') if m == int(m) else repr(m)


def check_native_ctor(name, periods, mult):
    """violation text or None"""
    for prof, lines, rep in native_ctor(name, periods, mult):
        want_err = any(p == 0 for p in periods)
        r0 = rep[0]
        if r0[0] == 'panic' or r0[0] == 'crash': return lines, '%s::new%r panics (%s profile)' % (name, tuple(periods), prof)
        if want_err:
            if not (r0[0] == 'err' and r0[1] == 'InvalidParameter'): return lines, '%s::new%r returned %r, expected Err(InvalidParameter) (%s)' % (name, tuple(periods), r0, prof)
            continue
        if r0[0] != 'ok': return lines, '%s::new%r returned %r, expected Ok (%s profile)' % (name, tuple(periods), r0, prof)
        k = 1
        if IND[name]['period']:
            if rep[k] != ('usize', periods[0]): return lines, '%s::new%r.period() = %r (%s)' % (name, tuple(periods), rep[k], prof)
            k += 1
        if IND[name]['mult']:
            if not (rep[k][0] == 'out' and (rep[k][1][0] == mult or (mult != mult and rep[k][1][0] != rep[k][1][0]))): return lines, '%s multiplier() = %r, expected %r (%s)' % (name, rep[k], mult, prof)
            k += 1
        want = DISPLAY[name].format(*periods, m=fmt_mult(mult) if mult is not None else '')
        if mult is not None and mult != mult: want = DISPLAY[name].format(*periods, m='NaN')
        if rep[k] != ('str', want): return lines, '%s Display = %r, expected %r (%s)' % (name, rep[k], want, prof)
    return None


def r_ctor_family(mir, name, spec, seed, to):
    """spec: list of ints or 'p' (symbolic over the whole usize range)"""
    fam = 'R:C11 %s::new%s' % (name, tuple(spec))
    ps, passume = [], []
    for k, v in enumerate(spec):
        if v == 'p':
            p = z3.Int('p%d' % k); ps.append(p); passume.append(z3.And(p >= 0, p <= UMAX))
        else: ps.append(v)
    mult = z3.Real('mult') if IND[name]['mult'] else None
    ex = Executor(mir, assumptions=passume)
    b = dict(engine='R', indicator=name, periods=['every usize (symbolic)' if v == 'p' else v for v in spec], multiplier='any real' if mult is not None else None)
    st = rcore.Stats()
    try:
        r = ex.call_impl(IND[name]['ty'], '', 'new', ps + ([mult] if mult is not None else []))
    except PathDead as e:
        r = None
    except Unsupported as e:
        return fam_result(fam, 'R', 'undecided', detail='R cannot encode: %r' % (e,), bounds=b)
    obs = []
    anyzero = O.or_(*[O.eq(p, 0) for p in ps]) if ps else False
    for (cond, msg, fn) in ex.panics:
        obs.append(Ob('no panic in %s: %s' % (fn.split('::')[0], msg[:60]), cond, cond))
    if r is None:
        obs.append(Ob('constructor returns normally', True, True))
    elif isinstance(r, EnumV):
        d = conc(r.discr)
        iserr = (d == 1) if is_sym(d) else (d == 1)
        obs.append(Ob('Err iff some period is 0', O.not_(O.eq(iserr, anyzero)) if O.sym(iserr, anyzero) else (iserr != anyzero), None))
        if 'Err' in r.pay:
            e = r.pay['Err'][0]
            obs.append(Ob('the error is InvalidParameter', O.and_(iserr, O.not_(O.eq(e.discr, 0))), None))
        if 'Ok' in r.pay:
            inst = RInst(ex, name, ex.new_root(r.pay['Ok'][0]))
            isok = O.not_(iserr)
            if IND[name]['period']: obs.append(Ob('period() returns the argument', O.and_(isok, O.not_(O.eq(inst.period(), ps[0]))), None))
            if IND[name]['mult']: obs.append(Ob('multiplier() returns the argument', O.and_(isok, O.not_(O.eq(inst.multiplier(), mult))), None))
    done, status, detail, replay = 0, 'ok', '', None
    for o in obs:
        if not (is_sym(o.bad) or o.bad is True):
            done += 1; continue
        rr, m = rcore.solve(st, passume, o.bad, to, seed, label=fam + ' : ' + o.label, stages=(2,)) if is_sym(o.bad) else ('sat', None)
        if rr == 'unsat':
            done += 1; continue
        if rr == 'unknown':
            status, detail = 'undecided', 'solver unknown on ' + o.label; continue
        per = [int(rcore.model_val(m, p)) if is_sym(p) else p for p in ps] if m is not None else [p if not is_sym(p) else 1 for p in ps]
        mv = float(rcore.model_val(m, mult)) if (mult is not None and m is not None) else (2.5 if mult is not None else None)
        bad = check_native_ctor(name, per, mv)
        if bad:
            status, detail, replay = 'violation', '%s: %s' % (o.label, bad[1]), bad[0]; break
        status, detail = 'undecided', 'solver model for "%s" (periods %r) did not reproduce natively' % (o.label, per)
    return fam_result(fam, 'R', status, detail=detail, replay=replay, obligations=len(obs), discharged=done, bounds=b, stats=st.as_dict(), witness='alive',
                      symbolic_inputs=sum(1 for v in spec if v == 'p') + (1 if mult is not None else 0) or 1,
                      functions=sorted(ex.called), lib_models=sorted(ex.lib_called), sample={'call': '%s::new%r' % (name, tuple(spec)), 'obligations': [o.label for o in obs][:6]})


def state_eq(ex, a, b, path=''):
    """list of (path, x, y) leaves that differ structurally (heap arrays followed through pointers)"""
    diffs = []
    if isinstance(a, Agg) and isinstance(b, Agg) and len(a.f) == len(b.f):
        for i, (x, y) in enumerate(zip(a.f, b.f)): diffs += state_eq(ex, x, y, path + '.' + (a.names[i] if a.names else str(i)))
    elif isinstance(a, EnumV) and isinstance(b, EnumV):
        if not rfam.O.sym(a.discr, b.discr) and a.discr != b.discr: diffs.append((path + '#discr', a.discr, b.discr))
        for k in set(a.pay) & set(b.pay):
            for i, (x, y) in enumerate(zip(a.pay[k], b.pay[k])): diffs += state_eq(ex, x, y, path + '.' + k)
    elif isinstance(a, Ptr) and isinstance(b, Ptr):
        va, vb = ex.read_path(ex.heap[a.oid], a.path), ex.read_path(ex.heap[b.oid], b.path)
        if isinstance(va, Arr) and isinstance(vb, Arr):
            if len(va.e) != len(vb.e): diffs.append((path + '#len', len(va.e), len(vb.e)))
            else:
                for i, (x, y) in enumerate(zip(va.e, vb.e)): diffs += state_eq(ex, x, y, path + '[%d]' % i)
    else:
        from vlib.mirsym import scalar_eq
        if not scalar_eq(a, b): diffs.append((path, a, b))
    return diffs


def r_default_family(mir, name, seed, to):
    """Default::default() behaves as new(<documented defaults>): same state, and same outputs on a symbolic stream"""
    d = IND[name]
    fam = 'R:C11 %s::default() == new%s' % (name, tuple(d['default']) + ((d['dmult'],) if d['mult'] else ()))
    mode = 'scalar' if d['scalar'] else 'bar'
    t = 4
    stream = rfam.make_stream(mode, t)
    mult = F(d['dmult']) if d['mult'] else None
    ops = [('default', 'a', name), ('new', 'b', name, tuple(d['default']), mult)] + [o for v in stream for o in (('feed', 'a', v), ('feed', 'b', v))]
    assume = rfam.stream_assumptions(stream, 'validbar' if mode == 'bar' else 'positive')
    b = dict(engine='R', indicator=name, defaults=d['default'] + ([d['dmult']] if d['mult'] else []), stream='%d symbolic inputs' % t)

    def concrete_obs(ops_, outs_):
        fa, fb = rfam.feeds(ops_, outs_, 'a'), rfam.feeds(ops_, outs_, 'b')
        obs = []
        for i, ((_, x), (_, y)) in enumerate(zip(fa, fb)):
            for k, (p, q) in enumerate(zip(x, y)):
                bad = O.not_(O.eq(p, q)) if O.sym(p, q) else (abs(p - q) > F(1, 10 ** 12) * max(abs(p), abs(q)))
                obs.append(Ob('%s default vs new(defaults): step %d out[%d]' % (name, i + 1, k), bad, bad))
        return obs

    def sym_obs(ops_, outs_, insts, ex):
        obs = concrete_obs(ops_, outs_)
        return obs
    ex = Executor(mir)
    try:
        a = RInst.default(ex, name); bb = RInst.create(ex, name, d['default'], mult)
        diffs = state_eq(ex, a.state(), bb.state())
        pa = a.period() if d['period'] else None
    except (Unsupported, PathDead) as e:
        return fam_result(fam, 'R', 'undecided', detail='R cannot encode: %r' % (e,), bounds=b)
    r = rfam.run_family(mir, fam, ops, assume, concrete_obs, seed, to, sym_obs_fn=sym_obs, bounds=b, witness=None)
    if r['status'] == 'ok' and d['period'] and pa != d['default'][0]:
        lines = ['default a ' + name, 'period a']
        rep = native.run_script(lines)
        if rep[1] != ('usize', d['default'][0]):
            r['status'], r['detail'], r['replay'] = 'violation', '%s::default().period() = %r, documented default %d' % (name, rep[1], d['default'][0]), lines
    if r['status'] == 'ok' and diffs:
        r['detail'] = 'note: default() state differs structurally from new(defaults) at %s but the outputs agree on the explored stream' % ([x[0] for x in diffs][:3],)
    return r


# ------------------------------------------------------------------------------------------------ engine K
def k_ctor_every_usize(name):
    """allocation-free constructors on EVERY usize tuple: Err iff some period is 0, no panic, accessors faithful"""
    d = IND[name]
    b = KB('c11_ctor_%s_all_usize' % name.lower(), unwind=4, family='K:C11 %s::new on every usize tuple (and every f64 multiplier)' % name,
           bounds=dict(engine='K', indicator=name, periods='every usize value for each period argument', multiplier='every f64 bit pattern' if d['mult'] else None))
    ps = [b.anyusize('p%d' % k) for k in range(d['np'])]
    m = b.anyf('mult') if d['mult'] else None
    b.emit('let r = %s;' % ctor(name, ps, m or '0.0', unwrap=False))
    b.emit('let anyzero = %s;' % ' || '.join('%s == 0' % p for p in ps))
    b.emit('match r { Err(e) => { assert!(anyzero, "rejected although every period is positive"); assert!(e == TaError::InvalidParameter, "wrong error"); }')
    body = 'assert!(!anyzero, "accepted a zero period");'
    if d['period']: body += ' assert!(x.period() == %s, "period() does not return the argument");' % ps[0]
    if d['mult']: body += ' assert!(x.multiplier().to_bits() == %s.to_bits(), "multiplier() does not return the argument");' % m
    b.emit('  Ok(x) => { %s } }' % body)

    def confirm(vals):
        per = [vals['p%d' % k] for k in range(d['np'])]
        mv = kani.hexf(vals['mult']) if d['mult'] else None
        bad = check_native_ctor(name, per, mv)
        return (True, bad[0], bad[1]) if bad else (False, [], 'native constructor behaves')
    b.confirm = confirm
    return b


def k_ctor_windowed(name, pmax):
    d = IND[name]
    b = KB('c11_ctor_%s_le%d' % (name.lower(), pmax), unwind=pmax + 3, family='K:C11 %s::new with every period tuple in 0..=%d' % (name, pmax),
           bounds=dict(engine='K', indicator=name, periods='0..=%d (symbolic, symbolic-size allocation)' % pmax))
    ps = [b.anyusize('p%d' % k, 0, pmax) for k in range(d['np'])]
    m = b.anyf('mult') if d['mult'] else None
    b.emit('let r = %s;' % ctor(name, ps, m or '0.0', unwrap=False))
    b.emit('let anyzero = %s;' % ' || '.join('%s == 0' % p for p in ps))
    b.emit('match r { Err(e) => { assert!(anyzero, "rejected although every period is positive"); assert!(e == TaError::InvalidParameter, "wrong error"); }')
    body = 'assert!(!anyzero, "accepted a zero period");'
    if d['period']: body += ' assert!(x.period() == %s, "period() does not return the argument");' % ps[0]
    if d['mult']: body += ' assert!(x.multiplier().to_bits() == %s.to_bits(), "multiplier() does not return the argument");' % m
    b.emit('  Ok(x) => { %s std::mem::forget(x); } }' % body)

    def confirm(vals):
        per = [vals['p%d' % k] for k in range(d['np'])]
        mv = kani.hexf(vals['mult']) if d['mult'] else None
        bad = check_native_ctor(name, per, mv)
        return (True, bad[0], bad[1]) if bad else (False, [], 'native constructor behaves')
    b.confirm = confirm
    return b


def main(chk):
    from vlib import mirsym
    mir = mirsym.dump_mir()
    native.build(); native.build('release')
    q = chk.tier == 'quick'
    to = 90 if q else 300
    jobs = []
    for name in ALL:
        np_ = IND[name]['np']
        if np_ == 0:
            jobs.append((r_ctor_family, (mir, name, [], chk.seed, to), {})); continue
        if name in ALLOC_FREE:
            jobs.append((r_ctor_family, (mir, name, ['p'] * np_, chk.seed, to), {}))
        rng = range(0, 5 if q else 9)
        for tup in itertools.product(rng, repeat=np_) if np_ == 1 else itertools.product((0, 1, 2, 3) if q else (0, 1, 2, 3, 5), repeat=np_):
            jobs.append((r_ctor_family, (mir, name, list(tup), chk.seed, to), {}))
        if name in ('SLOW_STOCH',):       # one windowed period, one EMA period: EMA period symbolic
            for n in (0, 1, 3): jobs.append((r_ctor_family, (mir, name, [n, 'p'], chk.seed, to), {}))
    for name in ALL:
        jobs.append((r_default_family, (mir, name, chk.seed, to), {}))
    chk.add(run_jobs(jobs))
    # native Display / accessor sweep at the boundary constants is part of every constructor confirmation; Kani decides the full usize range
    hs = [k_ctor_every_usize(n) for n in ALLOC_FREE]
    for name in ALL:
        if name not in ALLOC_FREE and IND[name]['np'] > 0:
            hs.append(k_ctor_windowed(name, 16 if q else 64))
    chk.add(kani.run_family_set('C11', hs, jobs=12, timeout_s=240 if q else 1800))
    # Display: decided natively on the boundary constants and a period sweep (formatting is outside both engines' reach at useful bounds; stated)
    bad = None
    for name in ALL:
        np_ = IND[name]['np']
        cands = [[p] * np_ for p in (1, 7, 10, 4096)] + ([[2 ** 31] * np_, [2 ** 32] * np_, [2 ** 53 + 1] * np_, [UMAX - 1] * np_, [UMAX] * np_] if name in ALLOC_FREE else [])
        if np_ == 3: cands += [[12, 26, 9], [26, 12, 9]]
        if np_ == 2: cands += [[10, 2], [14, 3]]
        for per in cands if np_ else [[]]:
            for mv in ([2.0, 3.0, 2.5, 0.0, -1.5] if IND[name]['mult'] else [None]):
                r = check_native_ctor(name, per, mv)
                if r and not bad: bad = (name, r)
    # accessors / Display "for the indicator's whole life": after inputs and a reset they still report the constructor arguments
    for name in ALL:
        np_ = IND[name]['np']
        per = [5, 3, 4][:np_] if np_ != 3 else [4, 7, 3]
        mv = 2.5 if IND[name]['mult'] else None
        feed = (lambda i: 'next a %r' % (10.0 + i)) if IND[name]['scalar'] else (lambda i: 'bar a %r %r %r %r %r' % (10.0 + i, 11.0 + i, 9.0 + i, 10.5 + i, 100.0))
        obs = ['display a'] + (['period a'] if IND[name]['period'] else []) + (['mult a'] if IND[name]['mult'] else [])
        lines = [native.new_cmd('a', name, per, mv)] + obs + [feed(i) for i in range(4)] + obs + ['reset a'] + obs + [feed(i) for i in range(3)] + obs
        rep = native.run_script(lines)
        snaps, cur = [], []
        for l, r in zip(lines, rep):
            if l in obs:
                cur.append(r)
                if len(cur) == len(obs): snaps.append(cur); cur = []
        if any(sn != snaps[0] for sn in snaps) and not bad:
            bad = (name, (lines, '%s: Display / period() / multiplier() changed during the life of the instance: %r' % (name, snaps)))
    chk.extra['display_sweep'] = 'native sweep of Display/period()/multiplier() over boundary constants: ' + ('ok' if not bad else 'FAILED')
    if bad:
        chk.add([fam_result('native Display/accessor sweep ' + bad[0], 'K', 'violation', detail=bad[1][1], replay=bad[1][0], obligations=1, discharged=0)])
    chk.assumptions += ['engine R: integers are mathematical integers with the compiler-inserted overflow assertions kept (overflow-checks=on MIR)',
                        'Display text is compared natively (dev and release) on a sweep incl. 2^31, 2^32, 2^53+1, usize::MAX-1, usize::MAX: symbolic float/integer formatting is outside the reach of both engines at useful bounds',
                        'windowed constructors: periods 0..=16 (64) in Kani (symbolic-size allocation), 0..=4 (8) in R']
    chk.notes += ['windowed periods above the bound ("as far as memory allows")', 'Display for arbitrary symbolic periods']
