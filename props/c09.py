"""C09  Dispersion measures are non-negative and bands are ordered around their middle."""
from fractions import Fraction as F
import z3
from vlib import oracles as O, rcore, rfam
from vlib.rfam import Ob, run_family, make_periods, make_stream, stream_assumptions, ops_stream, ob_eq
from vlib.framework import fam_result, run_jobs
from vlib.mirsym import is_sym, R


def le(label, a, b, slack_terms, tol):
    """a <= b (+ tol * max|slack_terms| in the concrete confirmation)"""
    if O.sym(a, b):
        bad = a > b
        return Ob(label, bad, bad)
    s = max([abs(x) for x in slack_terms] + [F(0)]) * tol
    return Ob(label, a > b, a > b + s)


def mags(v):
    return [v[1], v[2], v[3]] if isinstance(v, (tuple, list)) else [v]


def obligations(ops, outs):
    _, _, name, periods, mult = ops[0]
    fo = rfam.feeds_since_reset(ops, outs, 'a')
    stream = [v for v, _ in fo]
    n = periods[0] if periods else None
    obs, hist = [], []
    fb = rfam.feeds_since_reset(ops, outs, 'b')
    for i, (v, o) in enumerate(fo):
        hist += mags(v)
        t = i + 1
        tol = O.tau(t) * (O.maxv(F(1), O.absv(mult)) if mult is not None else 1)
        lab = lambda s: '%s step %d %s' % (name, t, s)
        if name in ('SD', 'MAD', 'TRUE_RANGE', 'ATR'):
            obs.append(le(lab('>= 0'), F(0), o[0], [], 0))
        elif name == 'MIN':                                  # paired with a Maximum in slot b
            obs.append(le(lab('Minimum <= Maximum'), o[0], fb[i][1][0], [], 0))
        elif name in ('BB', 'KC'):
            avg, up, lo = o
            obs.append(le(lab('lower <= average'), lo, avg, hist, tol)); obs.append(le(lab('average <= upper'), avg, up, hist, tol))
        elif name == 'CE':
            w = O.window(stream, i, n)
            obs.append(le(lab('long <= window max'), o[0], O.wmax([b[1] for b in w]), hist, tol))
            obs.append(le(lab('short >= window min'), O.wmin([b[2] for b in w]), o[1], hist, tol))
        elif name in ('MACD', 'PPO'):
            obs.append(ob_eq(lab('histogram == line - signal'), o[2], o[0] - o[1], hist if name == 'MACD' else [F(100)], O.tau(t)))
        elif name in ('SMA', 'WMA'):
            w = O.window(stream, i, n)
            obs.append(le(lab('>= window min'), O.wmin(w), o[0], hist, tol)); obs.append(le(lab('<= window max'), o[0], O.wmax(w), hist, tol))
        elif name == 'EMA':
            obs.append(le(lab('>= history min'), O.wmin(stream[:t]), o[0], hist, tol)); obs.append(le(lab('<= history max'), o[0], O.wmax(stream[:t]), hist, tol))
    return obs


def sym_obs(ops, outs, insts, ex):
    """the generic obligations plus: no sqrt of a negative number anywhere (NaN)"""
    obs = obligations(ops, outs)
    for k, (pc, arg, fn) in enumerate(ex.sqrts):
        if is_sym(arg):
            bad = z3.And(pc, arg < 0)
            obs.append(Ob('sqrt argument #%d never negative (no NaN) in %s' % (k, fn.split('::')[0]), bad, bad))
    return obs


def r_family(mir, name, mode, spec, t, seed, to, kind='any', reset_prefix=0):
    ps, passume = make_periods(spec)
    from vlib.inds import IND
    mult = z3.Real('mult') if IND[name]['mult'] else None
    stream = make_stream(mode, t)
    ops = ops_stream(name, ps, mult, stream)
    if name == 'MIN':
        ops = [ops[0], ('new', 'b', 'MAX', tuple(ps), None)] + [o for v in stream for o in (('feed', 'a', v), ('feed', 'b', v))]
    assume = passume + stream_assumptions(stream, kind)
    if mult is not None: assume += [mult >= 0, mult <= 1000]
    if reset_prefix and name != 'MIN':
        pre = make_stream(mode, reset_prefix, 'h'); assume += stream_assumptions(pre, kind)
        ops = rfam.with_reset_prefix(ops, pre)
    fam = 'R:C09 %s %s periods=%s t=%d%s' % (name, mode, ','.join(map(str, spec)), t, ' after %d inputs and a reset' % reset_prefix if (reset_prefix and name != 'MIN') else '')
    def wit(ops_, outs_, insts_, ex_):
        fa, fb_ = rfam.feeds(ops_, outs_, 'a'), rfam.feeds(ops_, outs_, 'b')
        return R(fa[-1][1][0]) < R(fb_[-1][1][0]) if len(fa) > 1 and spec[0] > 1 else z3.BoolVal(True)
    return run_family(mir, fam, ops, assume, obligations, seed, to, sym_obs_fn=sym_obs, exec_assume=passume,
                      int_vars=[p for p in ps if is_sym(p)], witness=(wit if name == 'MIN' else 'perturb_pm'),
                      bounds=dict(engine='R', indicator=name, input=mode, periods=spec, t=t, inputs=kind, multiplier='any real in [0,1000]' if mult is not None else None))


def main(chk):
    from vlib import mirsym, native
    mir = mirsym.dump_mir()
    native.build(); native.build('release')
    q = chk.tier == 'quick'
    ns = (1, 2, 3, 4) if q else (1, 2, 3, 4, 5)
    to = 90 if q else 300
    tf = (lambda n: 2 * n + 3) if q else (lambda n: 3 * n + 3)
    T = 8 if q else 12
    jobs = []
    J = lambda *a, **k: jobs.append((r_family, (mir,) + a + (chk.seed, to), k))
    for n in ns[:3]:
        for nm in ('SD', 'MAD', 'BB', 'SMA', 'WMA'): J(nm, 'scalar', [n], tf(n), reset_prefix=n + 1)
        J('CE', 'bar', [n], tf(n), kind='lowhigh', reset_prefix=n + 1)
    for n in ns:
        for nm in ('SD', 'MAD', 'MIN', 'BB', 'SMA', 'WMA'): J(nm, 'scalar', [n], tf(n))
        J('CE', 'bar', [n], tf(n), kind='lowhigh')
    J('TRUE_RANGE', 'scalar', [], T); J('TRUE_RANGE', 'bar', [], T, kind='lowhigh')
    J('ATR', 'scalar', ['p'], T); J('ATR', 'bar', ['p'], T, kind='lowhigh')
    for e in (1, 2, 3, 5):
        J('KC', 'scalar', [e], 6); J('KC', 'bar', [e], 6, kind='lowhigh'); J('EMA', 'scalar', [e], T)
    J('MACD', 'scalar', ['p', 'p', 'p'], T)
    for spec in ([1, 1, 1], [1, 2, 3], [3, 2, 2], [2, 4, 3]): J('PPO', 'scalar', spec, 6, kind='positive')
    chk.add(run_jobs(jobs))
    hs = [k_sd_nonneg('SD', 1, 3), k_sd_nonneg('SD', 2, 4), k_sd_nonneg('MAD', 2, 4)]
    if not q: hs += [k_sd_nonneg('SD', 2, 5), k_sd_nonneg('SD', 3, 5), k_sd_nonneg('MAD', 3, 6)]
    chk.add(kani.run_family_set('C09', hs, jobs=6, timeout_s=400 if q else 1200))
    chk.assumptions += ['f64 arithmetic modelled as exact real arithmetic in engine R (the cancellation that could drive a float variance negative is engine K\'s part)',
                        'inputs any sign, |x| <= 1e12; bars with low <= high, other fields independent; multiplier in [0, 1000]']
    chk.notes += ['SD >= 0 / not NaN under floating-point cancellation for full-range inputs beyond the Kani bound']


# ------------------------------------------------------------------------------------------------ engine K
from vlib import kani, native
from vlib.kani import KB, KOps


def k_sd_nonneg(name, n, t, bound='1e12'):
    """the float-specific half: cancellation must never drive the variance negative / NaN"""
    b = KB('c09_%s_nonneg_n%d_t%d' % (name.lower(), n, t), unwind=n + 3,
           family='K:C09 %s n=%d: %d finite inputs |x|<=%s, output >= 0 and not NaN (bit-precise, cancellation included)' % (name, n, t, bound),
           bounds=dict(engine='K', indicator=name, n=n, t=t, inputs='every finite f64 with |x| <= %s' % bound))
    k = KOps(b)
    k.new('a', name, [n])
    outs = []
    for i in range(t):
        v = b.anyf('x%d' % i, finite=True, cond='{v} <= %s && {v} >= -%s' % (bound, bound))
        o = k.feed('a', 'scalar', ('var', v, ('sym', 'x%d' % i)))
        b.emit('assert!(f64::from_bits(%s[0]) >= 0.0, "dispersion is negative or NaN");' % o)

    def confirm(vals):
        ops = k.concrete(vals)
        import math
        for prof in ('dev', 'release'):
            lines, res = kani.native_ops(ops, prof)
            for op, o in zip(ops, res):
                if op[0] == 'feed' and (o == 'panic' or not (o[0] >= 0.0)):
                    return True, lines, '%s(%d) returns %r on %r (%s)' % (name, n, o, [kani.hexf(x[2]) for x in ops if x[0] == 'feed'], prof)
        return False, lines, 'native output non-negative'
    b.confirm = confirm
    return b
