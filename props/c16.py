"""C16  DataItem builder accepts exactly the consistent bars and returns what was set."""
import math
from vlib import kani, native
from vlib.kani import KB, hexf
from vlib.framework import fam_result

SETTERS = ['open', 'high', 'low', 'close', 'volume']


def model(calls):
    """calls: [(which, hexbits)] -> expected ('ok', [bits...]) | ('err', kind)"""
    last = [None] * 5
    for w, h in calls: last[w] = h
    if any(x is None for x in last): return ('err', 'DataItemIncomplete')
    o, h, l, c, v = [hexf(x) for x in last]
    if l <= o and l <= c and l <= h and h >= o and h >= c and v >= 0.0: return ('ok', last)
    return ('err', 'DataItemInvalid')


def confirm_script(calls):
    toks = ' '.join('%s:%s' % (SETTERS[w][0], h) for w, h in calls)
    lines = ['dibuild ' + toks]
    exp = model(calls)
    for prof in ('dev', 'release'):
        rep = native.run_script(lines, prof)[0]
        if exp[0] == 'err':
            ok = rep[0] == 'err' and rep[1] == exp[1]
        else:
            ok = rep[0] == 'out' and len(rep) > 2 and rep[2] == 'cloneeq' and [native.f2hex(x) for x in rep[1]] == exp[1]
        if not ok:
            return True, lines, 'builder script %s: expected %r, native (%s) returned %r' % (toks, exp, prof, rep)
    return False, lines, 'native agrees with the model'


def h_script(maxlen):
    b = KB('c16_script_len%d' % maxlen, unwind=maxlen + 2, family='K:C16 symbolic setter script, up to %d calls, every f64 bit pattern' % maxlen,
           bounds=dict(engine='K', calls='0..=%d (which setter and which value symbolic)' % maxlen, values='every f64 bit pattern incl. NaN, inf, -0.0'))
    n = b.anyusize('len', 0, maxlen)
    ws, vs = [], []
    for k in range(maxlen):
        ws.append(b.anyu8('which%d' % k, 5)); vs.append(b.anyf('val%d' % k))
    b.emit('let ws = [%s]; let vs = [%s];' % (', '.join(ws), ', '.join(vs)))
    b.emit('let mut bld = DataItem::builder();')
    b.emit('let mut last: [Option<u64>; 5] = [None; 5];')
    b.emit('let mut k = 0usize;')
    b.emit('while k < %s { let x = vs[k]; bld = match ws[k] { 0 => bld.open(x), 1 => bld.high(x), 2 => bld.low(x), 3 => bld.close(x), _ => bld.volume(x) }; '
           'last[ws[k] as usize] = Some(x.to_bits()); k += 1; }' % n)
    b.emit('let r = bld.build();')
    b.emit('let complete = last[0].is_some() && last[1].is_some() && last[2].is_some() && last[3].is_some() && last[4].is_some();')
    b.emit('if !complete { assert!(matches!(r, Err(TaError::DataItemIncomplete)), "incomplete iff some field never set"); } else {')
    b.emit('  let (o, h, l, c, v) = (f64::from_bits(last[0].unwrap()), f64::from_bits(last[1].unwrap()), f64::from_bits(last[2].unwrap()), f64::from_bits(last[3].unwrap()), f64::from_bits(last[4].unwrap()));')
    b.emit('  let valid = l <= o && l <= c && l <= h && h >= o && h >= c && v >= 0.0;')
    b.emit('  match r { Ok(d) => { assert!(valid, "accepted an inconsistent bar");')
    b.emit('      assert!(d.open().to_bits() == o.to_bits() && d.high().to_bits() == h.to_bits() && d.low().to_bits() == l.to_bits() && d.close().to_bits() == c.to_bits() && d.volume().to_bits() == v.to_bits(), "getters return the last value set");')
    b.emit('      let e = d.clone(); assert!(e == d, "clone compares equal"); }')
    b.emit('    Err(e) => { assert!(!valid, "rejected a consistent bar"); assert!(e == TaError::DataItemInvalid, "wrong error kind"); } } }')

    def confirm(vals):
        calls = [(vals['which%d' % k], vals['val%d' % k]) for k in range(min(vals['len'], maxlen))]
        return confirm_script(calls)
    b.confirm = confirm
    return b


def h_all_set_orders():
    """all five set once, in an order chosen by a symbolic permutation index: order irrelevance on every f64"""
    hs = []
    b = KB('c16_five_any_order', unwind=8, family='K:C16 all five setters once, symbolic order, every f64 bit pattern',
           bounds=dict(engine='K', calls=5, order='any permutation (symbolic, assumed distinct)', values='every f64 bit pattern'))
    ws = [b.anyu8('which%d' % k, 5) for k in range(5)]
    vs = [b.anyf('val%d' % k) for k in range(5)]
    b.emit('let ws = [%s]; let vs = [%s];' % (', '.join(ws), ', '.join(vs)))
    b.emit('kani::assume(ws[0] != ws[1] && ws[0] != ws[2] && ws[0] != ws[3] && ws[0] != ws[4] && ws[1] != ws[2] && ws[1] != ws[3] && ws[1] != ws[4] && ws[2] != ws[3] && ws[2] != ws[4] && ws[3] != ws[4]);')
    b.emit('let mut bld = DataItem::builder(); let mut f = [0f64; 5]; let mut k = 0usize;')
    b.emit('while k < 5 { let x = vs[k]; bld = match ws[k] { 0 => bld.open(x), 1 => bld.high(x), 2 => bld.low(x), 3 => bld.close(x), _ => bld.volume(x) }; f[ws[k] as usize] = x; k += 1; }')
    b.emit('let r = bld.build();')
    b.emit('let r2 = DataItem::builder().open(f[0]).high(f[1]).low(f[2]).close(f[3]).volume(f[4]).build();')
    b.emit('match (r, r2) { (Ok(a), Ok(c)) => { assert!(a.open().to_bits() == c.open().to_bits() && a.high().to_bits() == c.high().to_bits() && a.low().to_bits() == c.low().to_bits() && a.close().to_bits() == c.close().to_bits() && a.volume().to_bits() == c.volume().to_bits(), "setter order irrelevant"); }')
    b.emit('  (Err(a), Err(c)) => assert!(a == c, "same error in any order"), _ => assert!(false, "setter order changes the verdict") }')

    def confirm(vals):
        calls = [(vals['which%d' % k], vals['val%d' % k]) for k in range(5)]
        return confirm_script(calls)
    b.confirm = confirm
    return b


def main(chk):
    native.build(); native.build('release')
    q = chk.tier == 'quick'
    hs = [h_script(7 if q else 9), h_all_set_orders()]
    hs.append(h_script(5) if q else h_script(7))
    chk.add(kani.run_family_set('C16', hs, jobs=4, timeout_s=300 if q else 1800))
    chk.assumptions += ['Kani/CBMC bit-precise on the dev-profile build of /repo (path dependency); counterexamples replayed natively in dev and release']
    chk.notes += ['scripts longer than the stated number of setter calls']
