"""C05  Clones and separate instances are independent and deterministic."""
from fractions import Fraction as F
import z3
from vlib import oracles as O, rcore, rfam, native, kani
from vlib.rfam import Ob, run_family, make_stream, stream_assumptions
from vlib.kani import KB, KOps
from vlib.framework import fam_result, run_jobs
from vlib.mirsym import is_sym, R
from vlib.inds import IND, ALL
from props.c04 import specs, cont_values


def eq_obs(label, xs, ys):
    obs = []
    for i, (x, y) in enumerate(zip(xs, ys)):
        for k, (p, q) in enumerate(zip(x, y)):
            lab = '%s step %d out[%d]' % (label, i + 1, k)
            if O.sym(p, q):
                bad = O.not_(O.eq(p, q)); obs.append(Ob(lab, bad, bad))
            else:
                obs.append(Ob(lab, p != q, p != q))          # bit-identical today: exact comparison of the native outputs
    return obs


def obligations(ops, outs):
    """a: history, clone -> c, then a and c are stepped interleaved with different inputs; u: unrelated instance stepped in between;
    ra / rc / ru: fresh instances replaying exactly the sequence of a / c / u.  Every instance must equal its own replay."""
    o = lambda s: [x for _, x in rfam.feeds(ops, outs, s)]
    name = ops[0][2]
    return eq_obs(name + ' original == replay of its own sequence', o('a'), o('ra')) + \
        eq_obs(name + ' clone == replay of history + its own continuation', o('c'), o('rc')[len(o('rc')) - len(o('c')):]) + \
        eq_obs(name + ' unrelated instance == its own replay', o('u'), o('ru'))


def build(name, mode, n, h, k):
    per = specs(name, n)
    mult = F(2) if IND[name]['mult'] else None
    N = lambda s: ('new', s, name, tuple(per), mult)
    hist = make_stream(mode, h, 'h'); ca = make_stream(mode, k, 'a'); cc = make_stream(mode, k, 'c'); cu = make_stream(mode, k, 'u')
    ops = [N('a'), N('u')] + [('feed', 'a', v) for v in hist] + [('clone', 'a', 'c')]
    for i in range(k): ops += [('feed', 'a', ca[i]), ('feed', 'u', cu[i]), ('feed', 'c', cc[i])]
    ops += [N('ra')] + [('feed', 'ra', v) for v in hist + ca]
    ops += [N('rc')] + [('feed', 'rc', v) for v in hist + cc]
    ops += [N('ru')] + [('feed', 'ru', v) for v in cu]
    return ops, hist + ca + cc + cu, per


def r_family(mir, name, mode, n, h, k, seed, to):
    ops, allv, per = build(name, mode, n, h, k)
    assume = stream_assumptions(allv, 'validbar' if mode == 'bar' else 'positive')
    fam = 'R:C05 %s %s periods=%s clone after %d inputs, %d interleaved steps' % (name, mode, per, h, k)
    return run_family(mir, fam, ops, assume, obligations, seed, to, witness=None,
                      bounds=dict(engine='R', indicator=name, input=mode, periods=per, history=h, interleaved_steps=k,
                                  schedule='a, unrelated, clone round-robin with independent symbolic inputs',
                                  frame='the executor has no global memory: any static / thread-local / interior-mutable access in the MIR is Unsupported (undecided)'))


# ------------------------------------------------------------------------------------------------ engine K
TAB = [1.0, 2.0, 3.0]


def k_interleave(name, mode, n, seed, hist=1):
    """two instances with different contents stepped back to back on an alphabet, each compared with a replay run later
    (hidden shared state keyed on partial state -- a memo, a scratch buffer -- shows as a mismatch)"""
    per = specs(name, n)
    b = KB('c05_interleave_%s_%s_n%d_h%d' % (name.lower(), mode, n, hist), unwind=max(per + [1]) + 3,
           family='K:C05 %s %s periods=%s: clone after %d inputs; original, clone and unrelated instance interleaved on an alphabet vs replays' % (name, mode, per, hist),
           bounds=dict(engine='K', indicator=name, input=mode, periods=per, inputs='each input symbolic over %r' % (TAB,), steps=n + 2))
    k = KOps(b)
    k.new('a', name, per); k.new('u', name, per)
    seq = {'a': [], 'u': [], 'c': []}
    pairs = []
    def feed(slot, tag):
        pol = ('pick', TAB)
        o = k.feed(slot, mode, pol if mode == 'scalar' else [('lit', 1.0), ('pick', TAB), ('lit', 0.5), ('pick', TAB), ('lit', 4.0)], tag)
        seq[slot].append((len(k.ops) - 1, o))
    for j in range(hist): feed('a', 'h%d' % j)
    k.clone('a', 'c')
    for i in range(n + 1):
        feed('a', 'a%d' % i); feed('u', 'u%d' % i); feed('c', 'c%d' % i)
    # replays: same draws, fresh instances, sequential
    def replay(slot, src_slots):
        k.new(slot, name, per)
        for s in src_slots:
            for (idx, o) in seq[s]:
                op = k.ops[idx]
                vals = []
                # re-feed the same values: reuse the rust variables through the draw tags
                k.n += 1
                ov = 'o%d' % k.n
                # reconstruct the rust argument from the original emitted line
                line = [l for l in b.lines if l.startswith('let %s = ' % o)][0]
                arg = line.split('.next(', 1)[1].rsplit(').ob();', 1)[0]
                b.emit('let %s = %s.next(%s).ob();' % (ov, slot, arg))
                k.ops.append(('feed', slot, op[2])); k.outs.append(ov)
                if not (s == 'a' and slot == 'rc' and idx == seq['a'][0][0] and False):
                    pairs.append((o, ov, s, slot))
    replay('ra', ['a'])
    k.new('rc', name, per)
    # clone's replay: history (first feed of a) then the clone's own inputs
    first = seq['a'][0]
    for (idx, o) in seq['a'][:hist] + seq['c']:
        op = k.ops[idx]
        line = [l for l in b.lines if l.startswith('let %s = ' % o)][0]
        arg = line.split('.next(', 1)[1].rsplit(').ob();', 1)[0]
        k.n += 1; ov = 'o%d' % k.n
        b.emit('let %s = rc.next(%s).ob();' % (ov, arg))
        k.ops.append(('feed', 'rc', op[2])); k.outs.append(ov)
        if idx not in [x[0] for x in seq['a'][:hist]]: pairs.append((o, ov, 'c', 'rc'))
    replay('ru', ['u'])
    for (o, ov, s, slot) in pairs:
        b.emit('assert!(same(%s, %s), "instance %s differs from a replay of its own sequence");' % (o, ov, s))

    def confirm(vals):
        ops = k.concrete(vals)
        for prof in ('dev', 'release'):
            lines, outs = kani.native_ops(ops, prof)
            byslot = {}
            for op, o in zip(ops, outs):
                if op[0] == 'feed': byslot.setdefault(op[1], []).append(o)
            for s, r in (('a', 'ra'), ('u', 'ru')):
                for i, (x, y) in enumerate(zip(byslot[s], byslot[r])):
                    if x == 'panic' or y == 'panic' or not all(kani.same_f(p, q) for p, q in zip(x, y)):
                        return True, lines, 'instance %s step %d returns %r, a replay of the same sequence %r (%s)' % (s, i + 1, x, y, prof)
            for i, (x, y) in enumerate(zip(byslot['c'], byslot['rc'][hist:])):
                if x == 'panic' or y == 'panic' or not all(kani.same_f(p, q) for p, q in zip(x, y)):
                    return True, lines, 'clone step %d returns %r, a replay of history+continuation %r (%s)' % (i + 1, x, y, prof)
        return False, lines, 'native outputs agree'
    b.confirm = confirm
    return b


def k_clone_any(name, n, hist):
    """clone after a history of EVERY f64 bit pattern (NaN, inf), then the same continuation on both: bit-identical outputs (comparison-only indicators)"""
    b = KB('c05_cloneany_%s_n%d_h%d' % (name.lower(), n, hist), unwind=n + 3,
           family='K:C05 %s n=%d: clone after %d arbitrary-f64 inputs (NaN/inf included), same arbitrary continuation on both -> identical outputs' % (name, n, hist),
           bounds=dict(engine='K', indicator=name, n=n, history='%d inputs, every f64 bit pattern' % hist, continuation='%d inputs, every f64 bit pattern' % (n + 1)))
    k = KOps(b)
    k.new('a', name, [n])
    for i in range(hist): k.feed('a', 'scalar', 'any', 'h%d' % i)
    k.clone('a', 'c')
    pairs = []
    for i in range(n + 1):
        x = b.anyf('x%d' % i)
        oa = k.feed('a', 'scalar', ('var', x, ('sym', 'x%d' % i))); oc = k.feed('c', 'scalar', ('var', x, ('sym', 'x%d' % i)))
        b.emit('assert!(same(%s, %s), "clone diverges from the original");' % (oa, oc))

    def confirm(vals):
        ops = k.concrete(vals)
        for prof in ('dev', 'release'):
            lines, outs = kani.native_ops(ops, prof)
            xa = [o for op, o in zip(ops, outs) if op[0] == 'feed' and op[1] == 'a'][hist:]
            xc = [o for op, o in zip(ops, outs) if op[0] == 'feed' and op[1] == 'c']
            for i, (p_, q_) in enumerate(zip(xa, xc)):
                if p_ == 'panic' or q_ == 'panic' or not all(kani.same_f(u, v) for u, v in zip(p_, q_)):
                    return True, lines, '%s(%d): after the clone, step %d: original %r, clone %r (%s)' % (name, n, i + 1, p_, q_, prof)
        return False, lines, 'native outputs agree'
    b.confirm = confirm
    return b


def k_bytes(name, mode, n):
    """every f64: clone has the same serialized state; stepping the original leaves the clone's and an unrelated instance's state untouched"""
    per = specs(name, n)
    b = KB('c05_bytes_%s_%s_n%d' % (name.lower(), mode, n), unwind=max(per + [4]) * 2 + 30,
           family='K:C05 %s %s periods=%s: state (token stream) of clone/unrelated instance untouched by stepping the original, every f64' % (name, mode, per),
           bounds=dict(engine='K', indicator=name, input=mode, periods=per, inputs='every f64 bit pattern', steps=n + 2))
    k = KOps(b)
    k.new('a', name, per); k.new('u', name, per)
    k.feed('u', mode, 'any', 'u0')
    for i in range(n): k.feed('a', mode, 'any', 'h%d' % i)
    k.clone('a', 'c')
    b.emit('let ta = to_tok(&a).unwrap(); let tc = to_tok(&c).unwrap(); let tu = to_tok(&u).unwrap();')
    b.emit('assert!(ta.n == tc.n, "clone state differs"); let mut i = 0; while i < ta.n { assert!(ta.buf[i] == tc.buf[i], "clone state differs from the original"); i += 1; }')
    for i in range(n + 2): k.feed('a', mode, 'any', 'a%d' % i)
    b.emit('let tc2 = to_tok(&c).unwrap(); let tu2 = to_tok(&u).unwrap();')
    b.emit('let mut i = 0; while i < tc.n { assert!(tc.buf[i] == tc2.buf[i], "stepping the original changed the clone"); i += 1; }')
    b.emit('let mut i = 0; while i < tu.n { assert!(tu.buf[i] == tu2.buf[i], "stepping the original changed an unrelated instance"); i += 1; }')
    b.confirm = lambda vals: (False, [], 'state-bytes counterexamples are not replayed natively')
    return b


def probe_family(name, n, steps=1400):
    """native determinism probe (confirmation device for hidden process-wide state, which R reports as an unsupported
    static / thread-local access): instance A fed S alone first; then B fed the same S while an unrelated instance is stepped in
    between and a clone of B is taken midway; all outputs must be bit-identical."""
    per = specs(name, n)
    mode = 'scalar' if IND[name]['scalar'] else 'bar'
    mult = 2.0 if IND[name]['mult'] else None
    def val(i, salt):
        x = 100.0 + ((i * 2654435761 + salt * 40503) % 100003) / 977.0      # non-dyadic, deterministic
        return x if mode == 'scalar' else (x, x + 1.37, x - 0.91, x + 0.13, 10.0 + (i % 7) * 1.1)
    S = [val(i, 1) for i in range(steps)]
    lines = [native.new_cmd('a', name, per, mult)] + [native.feed_cmd('a', v) for v in S]
    lines += [native.new_cmd('b', name, per, mult), native.new_cmd('u', name, per, mult)]
    half = steps // 2
    for i, v in enumerate(S):
        lines.append(native.feed_cmd('b', v)); lines.append(native.feed_cmd('u', val(i, 2)))
        if i == half: lines.append('clone b c')
        if i > half: lines.append(native.feed_cmd('c', v))
    rep = native.run_script(lines)
    outs = {}
    for l, r in zip(lines, rep):
        w = l.split()
        if w[0] in ('next', 'bar'): outs.setdefault(w[1], []).append(r)
    fam = 'native determinism probe %s%r: %d non-dyadic inputs, two instances / clone / interleaved unrelated instance bit-identical' % (name, tuple(per), steps)
    for i, (x, y) in enumerate(zip(outs['a'], outs['b'])):
        if x != y:
            return fam_result(fam, 'K', 'violation', replay=lines, obligations=1, discharged=0,
                              detail='%s: two instances with the same parameters and history differ at step %d: %r vs %r (the second was interleaved with an unrelated instance)' % (name, i + 1, x, y))
    for i, (x, y) in enumerate(zip(outs['c'], outs['b'][half + 1:])):
        if x != y:
            return fam_result(fam, 'K', 'violation', replay=lines, obligations=1, discharged=0,
                              detail='%s: clone and original fed the same continuation differ at step %d: %r vs %r' % (name, i + 1, x, y))
    return fam_result(fam, 'K', 'ok', obligations=1, discharged=1)


def main(chk):
    from vlib import mirsym
    mir = mirsym.dump_mir()
    native.build(); native.build('release')
    q = chk.tier == 'quick'
    to = 90 if q else 300
    jobs = []
    for name in ALL:
        mode = 'scalar' if IND[name]['scalar'] else 'bar'
        for n in ((1, 2) if q else (1, 2, 3)):
            if IND[name]['np'] == 0 and n > 1: continue
            for h in sorted(set((0, 1, n, n + 1) if q else (0, 1, n - 1, n, n + 1, n + 2))):
                if h < 0: continue
                jobs.append((r_family, (mir, name, mode, n, h, n + 1, chk.seed, to), {}))
    chk.add(run_jobs(jobs))
    hs = []
    for name in ('SMA', 'WMA', 'EMA', 'MIN', 'MAX', 'TRUE_RANGE', 'MAD', 'ROC', 'OBV') if q else ALL:
        mode = 'scalar' if IND[name]['scalar'] else 'bar'
        if not q and name in ('CE', 'SLOW_STOCH'): continue
        n = 1 if IND[name]['np'] == 0 else 2
        hs.append(k_interleave(name, mode, n, chk.seed))
        if IND[name]['np'] and name in ('SMA', 'ROC', 'MIN', 'ER', 'WMA'): hs.append(k_interleave(name, mode, n, chk.seed, hist=n))
    for nm in ('MIN', 'MAX'):
        for n, hist in ((2, 1), (3, 2), (3, 3)) if q else ((2, 1), (2, 2), (3, 1), (3, 2), (3, 3), (4, 3)):
            hs.append(k_clone_any(nm, n, hist))
    for name in ALL:
        if name in ('CE', 'SLOW_STOCH'): continue
        mode = 'scalar' if IND[name]['scalar'] else 'bar'
        hs.append(k_bytes(name, mode, 2 if IND[name]['np'] else 1))
    chk.add(kani.run_family_set('C05', hs, jobs=14, timeout_s=300 if q else 1800))
    chk.add(run_jobs([(probe_family, (name, 7 if IND[name]['np'] else 1), {}) for name in ALL]))
    chk.assumptions += ['R: outputs of every instance equal a sequential replay of its own inputs for every interleaving position explored; exact reals',
                        'K: bit-precise; state observed through the derived Serialize impl (token stream)', 'Rust aliasing rules: &mut self cannot alias another instance', 'a native determinism probe (1400 inputs, bit comparison) runs as a sanity pass and as confirmation for unsupported global accesses; it is not a solver verdict']
    chk.notes += ['concurrent use from threads: Kani has no concurrency; it follows from the frame condition only as an argument', 'interleavings longer than n+1 rounds']
