"""C12  next() is total: no panic or out-of-bounds for any input and valid configuration."""
from vlib import kani, native, rfam
from vlib.kani import KB, ctor
from vlib.inds import IND, ALL
from vlib.framework import fam_result


import math
# composites whose bit-blasted float arithmetic does not finish under the cap are driven from an alphabet of
# special values chosen by a symbolic index per input (ordering classes, ties, NaN, infinities, extremes)
HEAVY = ('CE', 'SLOW_STOCH')
ALPHABET = [float('nan'), math.inf, -math.inf, 0.0, -0.0, 1.5, -2.25, 1.7976931348623157e308, 5e-324]


def periods_for(name, n):
    return [n, n + 1, 2][:IND[name]['np']]


def total_harness(name, n, mode, steps, mult='2.5', short=False):
    per = periods_for(name, n)
    b = KB('c12_total_%s_%s_n%d' % (name.lower(), mode, n), unwind=max(n, max(per + [1])) + 3, stub_sqrt=name in ('SD', 'BB'), stub_ema=name in HEAVY,
           family='K:C12 totality %s %s periods=%s: resets, %d steps, clone' % (name, mode, per, steps),
           bounds=dict(engine='K', indicator=name, input=mode, periods=per, steps=steps, schedule='[k x next, reset] for k=0..%d, then %d x next, clone, next on both' % (1 if short else 2, steps),
                       inputs='every f64 bit pattern (NaN, +-inf, subnormals, -0.0); bar fields independent',
                       stubs=(['f64::sqrt -> arbitrary f64'] if name in ('SD', 'BB') else []) + (['<ExponentialMovingAverage as Next<f64>>::next -> arbitrary f64 (its own totality: EMA harness)'] if name in HEAVY else [])))
    ops = []
    b.emit('let mut a = %s;' % ctor(name, per, mult))
    ops.append(('new', 'a', name, tuple(per), float(mult) if IND[name]['mult'] else None))
    cnt = [0]

    heavy = False

    def feed(slot):
        cnt[0] += 1
        if mode == 'scalar':
            tag = 'x%d' % cnt[0]
            v = b.pick(tag, ALPHABET) if heavy else b.anyf(tag)
            b.emit('let _ = %s.next(%s);' % (slot, v)); ops.append(('feed', slot, (tag,)))
        elif heavy:
            tags = ['b%d.%s' % (cnt[0], f) for f in 'ohlcv']
            vs = [b.pick(tg, ALPHABET) for tg in tags]
            b.emit('let _ = %s.next(&B { o: %s, h: %s, l: %s, c: %s, v: %s });' % ((slot,) + tuple(vs)))
            ops.append(('feed', slot, tuple(tags)))
        else:
            v = b.anybar('b%d' % cnt[0]); b.emit('let _ = %s.next(&%s);' % (slot, v)); ops.append(('feed', slot, tuple('b%d.%s' % (cnt[0], f) for f in 'ohlcv')))
        b.stub_draws(name)
    for k in range(3 if not short else 2):
        for _ in range(k): feed('a')
        b.emit('a.reset();'); ops.append(('reset', 'a'))
    for _ in range(steps): feed('a')
    b.emit('let mut c = a.clone();'); ops.append(('clone', 'a', 'c'))
    feed('c'); feed('a')

    def confirm(vals):
        cops = []
        for op in ops:
            if op[0] == 'feed':
                v = tuple((vals[t] if isinstance(vals[t], str) else native.f2hex(ALPHABET[vals[t]])) for t in op[2])
                cops.append(('feed', op[1], v if len(v) > 1 else v[0]))
            else: cops.append(op)
        for prof in ('dev', 'release'):
            lines, outs = rfam.run_ops_native(cops, prof)
            if any(o == 'panic' for o in outs): return True, lines, 'native panic (%s profile)' % prof
        return False, lines, 'no native panic'
    b.confirm = confirm
    return b


def main(chk):
    native.build(); native.build('release')
    q = chk.tier == 'quick'
    hs = []
    for name in ALL:
        modes = (['scalar'] if IND[name]['scalar'] else []) + (['bar'] if (not IND[name]['scalar'] or name in ('FAST_STOCH', 'TRUE_RANGE', 'KC', 'MIN', 'SMA')) else [])
        for mode in modes:
            for n in ((1, 2, 3) if q else (1, 2, 3, 4, 5, 6, 8)):
                if IND[name]['np'] == 0 and n > 1: continue
                if name in HEAVY:
                    if n > (2 if q else 4): continue
                    hs.append(total_harness(name, n, mode, (2 * n + 2) if q else (3 * n + 3), short=q))
                else:
                    hs.append(total_harness(name, n, mode, 3 * n + 3))
    from vlib import mirsym
    mir = mirsym.dump_mir()
    jobs = [(r_induct, (mir, name, n, chk.seed), {}) for name in RING for n in ((1, 2, 3, 4, 5) if q else (1, 2, 3, 4, 5, 6, 8, 12))]
    jobs += [(r_induct_all_periods, (mir, name, chk.seed), {}) for name in ALLP]
    chk.add(run_jobs(jobs))
    chk.add(kani.run_family_set('C12', hs, jobs=14, timeout_s=240 if q else 1200))
    chk.assumptions += ['Kani models the dev profile of /repo: overflow checks and debug assertions on; every Rust panic and CBMC memory-safety check is a violation',
                        'allocation failure out of scope (Kani default)']
    chk.notes += ['periods above the bound', 'Display/Debug/serialization totality (covered in C11/C06 harnesses)']


# ------------------------------------------------------------------------------------------------ engine R: all history lengths
# One inductive step on the cursor invariant: from EVERY cursor state in the (reachable) invariant set, with arbitrary real buffer
# contents and accumulators, next(x) reaches no failing bounds/overflow/slice assertion and lands in the invariant set again.
# With new() establishing the invariant this covers "arbitrarily many calls past every ring-buffer wrap-around" for the period.
# A failed step is never reported as a violation (the pre-state may be unreachable): the family is not required.
import z3
from fractions import Fraction as F
from vlib import rcore
from vlib.mirsym import Executor, Unsupported, PathDead, Agg, Arr
from vlib.inds import RInst
from vlib.framework import run_jobs

RING = {
    'SMA': ('index', 'count'), 'WMA': ('index', 'count'), 'SD': ('index', 'count'), 'MAD': ('index', 'count'), 'ER': ('index', 'count'),
    'ROC': ('index', 'count'), 'MFI': ('index', 'count'), 'MIN': ('cur_index', 'min_index'), 'MAX': ('cur_index', 'max_index'),
}


def invariant_set(name, n):
    if name in ('MIN', 'MAX'): return [(i, j) for i in range(n) for j in range(n)]
    if name == 'ROC': return sorted(set([(c % n, c) for c in range(n + 1)] + [(i, n + 1) for i in range(n)]))
    return sorted(set([(c % n, c) for c in range(n + 1)] + [(i, n) for i in range(n)]))


def r_induct(mir, name, n, seed):
    fam = 'R:C12 cursor induction %s n=%d: one next() from every invariant cursor state, buffers and accumulators arbitrary reals' % (name, n)
    inv = invariant_set(name, n)
    f1, f2 = RING[name]
    checked = 0
    detail = ''
    fns = set()
    try:
        for (a, b_) in inv:
            ex = Executor(mir)
            inst = RInst.create(ex, name, [n], None)
            st = inst.state()
            vals = []
            for k_, v in enumerate(st.f):
                nm = st.names[k_]
                if nm == f1: vals.append(a)
                elif nm == f2: vals.append(b_)
                elif isinstance(v, F): vals.append(z3.Real('acc_' + nm))
                else: vals.append(v)
            ex.heap[inst.ptr.oid] = Agg(st.kind, vals, st.names)
            boxp = st.f[st.names.index('deque')].f[0].f[0]
            ex.heap[boxp.oid] = Arr([z3.Real('d%d' % i) for i in range(n)])
            x = z3.Real('x') if IND[name]['scalar'] else tuple(z3.Real('b_' + f) for f in 'ohlcv')
            try:
                inst.feed(x)
            except PathDead as e:
                detail = detail or 'from cursor state %s=%d, %s=%d: %s' % (f1, a, f2, b_, e)
                continue
            bad = [p for p in ex.panics]
            post = inst.state()
            pa, pb = post.f[post.names.index(f1)], post.f[post.names.index(f2)]
            ok_states = None
            if z3.is_expr(pa) or z3.is_expr(pb):
                # cursors became symbolic (Minimum/Maximum): every value they can take must be in the invariant set
                s_ = z3.Solver(); s_.set('timeout', 20000)
                s_.add(z3.Not(z3.Or(*[z3.And(rcore.to_z3(pa) == i, rcore.to_z3(pb) == j) for (i, j) in inv])))
                r = s_.check()
                if r != z3.unsat: detail = detail or 'from (%d,%d): post-state cursors may leave the invariant set (%s)' % (a, b_, r); continue
            elif (pa, pb) not in inv:
                detail = detail or 'from (%d,%d): post-state cursors (%s,%s) outside the invariant set' % (a, b_, pa, pb); continue
            feasible_panic = False
            for (cond, msg, fn) in bad:
                s_ = z3.Solver(); s_.set('timeout', 20000); s_.add(cond)
                if s_.check() != z3.unsat:
                    feasible_panic = True; detail = detail or 'from (%d,%d): assertion may fail: %s' % (a, b_, msg[:80])
            if not feasible_panic: checked += 1
            fns |= set(ex.called)
    except (Unsupported, ValueError, AttributeError, IndexError) as e:
        return fam_result(fam, 'R', 'undecided', required=False, detail='R cannot encode / invariant not applicable: %r' % (e,),
                          bounds=dict(engine='R', indicator=name, n=n, history='all lengths (induction)'))
    ok = checked == len(inv)
    return fam_result(fam, 'R', 'ok' if ok else 'undecided', required=False, detail=detail, obligations=len(inv), discharged=checked, symbolic_inputs=n + 2,
                      witness='alive', functions=sorted(fns),
                      bounds=dict(engine='R', indicator=name, n=n, history='all stream lengths by induction on the cursor invariant', invariant_states=len(inv),
                                  inputs='all reals (NaN/inf reaching comparisons: Kani part)'),
                      sample={'invariant_set': str(inv[:8]), 'step': 'next(symbolic input) from symbolic buffers'})


# ------------------------------------------------------------------------------------------------ engine R: EVERY period
# For the indicators whose next() has no loop over the window (SMA, WMA, SD, ROC, MFI) the same inductive step is taken with the
# PERIOD SYMBOLIC over 1..usize::MAX: the ring buffer becomes an abstract array of symbolic length (reads arbitrary, writes dropped),
# the cursors are symbolic integers satisfying the invariant.  Integer widths are taken from the MIR (u32 products overflow at 2^32).
# A feasible failing assertion is confirmed natively by actually reaching the cursor state (count inputs, then one more).
ALLP = {'SMA': ('index', 'count', 0), 'WMA': ('index', 'count', 0), 'SD': ('index', 'count', 0), 'ROC': ('index', 'count', 1), 'MFI': ('index', 'count', 0)}


def r_induct_all_periods(mir, name, seed):
    fam = 'R:C12 cursor induction %s, EVERY period 1..2^60 (symbolic), every history length' % name
    f1, f2, extra = ALLP[name]
    P = z3.Int('P'); I = z3.Int('I'); C = z3.Int('C')
    inv = [P >= 1, P <= 2 ** 60, I >= 0, I < P, C >= 0, C <= P + extra]          # a Vec<f64> cannot hold more than isize::MAX / 8 = 2^60 elements
    b = dict(engine='R', indicator=name, period='symbolic: every period 1..2^60 (the largest Vec<f64> that can exist)', history='every length (induction on the cursor invariant index < period, count <= period%s)' % ('+1' if extra else ''),
             buffer='abstract array of symbolic length: reads arbitrary reals, writes dropped')
    ex = Executor(mir, assumptions=inv)
    ex.abstract_arrays = True
    try:
        inst = RInst.create(ex, name, [P], None)
        st = inst.state()
        vals = []
        for k_, v in enumerate(st.f):
            nm = st.names[k_]
            if nm == f1: vals.append(I)
            elif nm == f2: vals.append(C)
            elif isinstance(v, F): vals.append(z3.Real('acc_' + nm))
            else: vals.append(v)
        ex.heap[inst.ptr.oid] = Agg(st.kind, vals, st.names)
        npan = len(ex.panics)
        x = z3.Real('x') if IND[name]['scalar'] else tuple(z3.Real('b_' + f) for f in 'ohlcv')
        inst.feed(x)
        post = inst.state()
        pI, pC = post.f[post.names.index(f1)], post.f[post.names.index(f2)]
    except PathDead as e:
        return fam_result(fam, 'R', 'undecided', required=False, detail='path dead: %r' % (e,), bounds=b)
    except (Unsupported, ValueError, AttributeError, IndexError) as e:
        return fam_result(fam, 'R', 'undecided', required=False, detail='R cannot encode: %r' % (e,), bounds=b)
    obligations = [(cond, 'no failing assertion: ' + msg[:70]) for (cond, msg, fn) in ex.panics[npan:]]
    obligations.append((z3.Not(z3.And(rcore.to_z3(pI) >= 0, rcore.to_z3(pI) < P, rcore.to_z3(pC) >= 0, rcore.to_z3(pC) <= P + extra)), 'cursor invariant re-established'))
    done, status, detail, replay = 0, 'ok', '', None
    for cond, lab in obligations:
        s_ = z3.Solver(); s_.set('timeout', 30000)
        s_.add(*inv); s_.add(cond)
        r = s_.check()
        if r == z3.unsat:
            done += 1; continue
        if r != z3.sat:
            status, detail = 'undecided', 'solver %s on: %s' % (r, lab); continue
        m = s_.model()
        p_, c_ = m.eval(P, model_completion=True).as_long(), m.eval(C, model_completion=True).as_long()
        # confirm natively by reaching the state: period p_, c_ inputs, then one more (only if that is affordable)
        if p_ <= 200000 and c_ <= 200000:
            feed = (lambda i: 'next a %r' % (1.0 + (i % 7))) if IND[name]['scalar'] else (lambda i: 'bar a 1 2 0.5 %r 3' % (1.0 + (i % 7)))
            lines = ['new a %s %d' % (name, p_)] + [feed(i) for i in range(c_ + 2)]
            rep = native.run_script(lines, 'dev')
            if any(r_[0] == 'panic' for r_ in rep):
                k = [r_[0] for r_ in rep].index('panic')
                status, replay = 'violation', lines[:k + 1]
                detail = '%s(%d).next() panics at call %d (%s)' % (name, p_, k, lab)
                break
        status = 'undecided' if status != 'violation' else status
        detail = detail or 'assertion may fail from cursor state P=%d, count=%d (not confirmed natively): %s' % (p_, c_, lab)
    return fam_result(fam, 'R', status, required=False if status != 'violation' else True, detail=detail, replay=replay, obligations=len(obligations), discharged=done,
                      symbolic_inputs=4, witness='alive', functions=sorted(ex.called), lib_models=sorted(ex.lib_called), bounds=b,
                      sample={'state': 'period P, index I, count C symbolic with 1 <= P, I < P, C <= P%s' % ('+1' if extra else ''), 'obligations': [l for _, l in obligations][:6]})
