"""C01  Sliding-window statistics equal the textbook value of exactly the last n inputs."""
from fractions import Fraction as F
import z3
from vlib import oracles as O, rcore, rfam
from vlib.mirsym import Executor, Unsupported, PathDead, R
from vlib.rfam import ob_eq, ob_pred, discharge
from vlib.framework import fam_result

NAMES = ['SMA', 'WMA', 'SD', 'MAD', 'MIN', 'MAX', 'BB']


def obligations(ops, outs):
    """generic over numbers: ops = [('new',..), ('feed',..)..]"""
    _, _, name, (n,), mult = ops[0]
    fo = rfam.feeds_since_reset(ops, outs)
    stream = [v for v, _ in fo]
    obs = []
    for i, (_, o) in enumerate(fo):
        t = i + 1
        w = O.window(stream, i, n); hist = stream[:i + 1]; tol = O.tau(t)
        lab = '%s(%d) step %d' % (name, n, t)
        if name == 'SMA': obs.append(ob_eq(lab, o[0], O.mean(w), hist, tol, step=i))
        elif name == 'WMA': obs.append(ob_eq(lab, o[0], O.wma(w), hist, tol, step=i))
        elif name == 'MAD': obs.append(ob_eq(lab, o[0], O.mad(w), hist, tol, step=i))
        elif name == 'MIN': obs.append(ob_pred(lab + ' exact', O.not_(O.eq(o[0], O.wmin(w))), step=i))
        elif name == 'MAX': obs.append(ob_pred(lab + ' exact', O.not_(O.eq(o[0], O.wmax(w))), step=i))
        elif name == 'SD':
            obs.append(ob_eq(lab + ' variance', o[0] * o[0], O.pvar(w), hist, tol, square=True, step=i))
            obs.append(ob_pred(lab + ' >= 0', o[0] < 0, step=i))
        elif name == 'BB':
            obs += bb_obligations(lab, o, w, hist, mult, tol, i)
    return obs


def bb_obligations(lab, o, w, hist, mult, tol, i):
    avg, up, lo = o
    obs = [ob_eq(lab + ' average', avg, O.mean(w), hist, tol, step=i)]
    hw = up - avg
    m2 = mult * mult
    sc2 = O.maxv(F(1), m2)
    ad = O.absv(hw * hw - m2 * O.pvar(w))
    obs.append(ob_pred(lab + ' half-width^2 == mult^2 * var', O.not_(O.eq(hw * hw, m2 * O.pvar(w))),
                       O.and_(*[ad > tol * sc2 * (x * x) for x in hist]), step=i))
    sc1 = O.maxv(F(1), O.absv(mult))
    d2 = (avg - lo) - hw
    obs.append(ob_pred(lab + ' symmetric', O.not_(O.eq(avg - lo, hw)),
                       O.and_(*[O.absv(d2) > tol * sc1 * O.absv(x) for x in hist]), step=i))
    obs.append(ob_pred(lab + ' upper side has the sign of mult', hw * mult < 0,
                       O.and_(*[hw * mult < -(tol * sc2 * (x * x)) for x in hist]), step=i))
    return obs


def r_family(mir, name, n, t, seed, timeout_s, reset_prefix=0):
    fam = 'R:C01 %s n=%d t=%d%s' % (name, n, t, ' after %d inputs and a reset' % reset_prefix if reset_prefix else '')
    ex = Executor(mir)
    xs = rcore.reals('x', t)
    mult = z3.Real('mult') if name == 'BB' else None
    ops = rfam.ops_stream(name, [n], mult, xs)
    assume = rcore.bounds(xs) + (rcore.bounds([mult], bound=F(1000)) if mult is not None else [])
    if reset_prefix:
        pre = rcore.reals('h', reset_prefix); assume += rcore.bounds(pre)
        ops = rfam.with_reset_prefix(ops, pre)
    try:
        outs, _ = rfam.run_ops_r(ex, ops)
    except (Unsupported, PathDead) as e:
        return fam_result(fam, 'R', 'undecided', detail='R cannot encode: %r' % (e,), bounds=dict(n=n, t=t))
    obs = obligations(ops, outs)
    last = outs[-1]
    ref_last = {'SMA': O.mean, 'WMA': O.wma, 'MAD': O.mad, 'MIN': O.wmin, 'MAX': O.wmax}.get(name)
    w = O.window(xs, t - 1, n)
    if ref_last is not None:
        wit = lambda: O.not_(O.eq(last[0], ref_last(w) + 1))
    elif name == 'SD':
        wit = lambda: O.not_(O.eq(last[0] * last[0], O.pvar(w) + 1))
    else:
        wit = lambda: O.not_(O.eq(last[0], O.mean(w) + 1))
    return discharge(ex, ops, outs, obs, assume, obligations, seed=seed, timeout_s=timeout_s, family=fam,
                     bounds=dict(engine='R', indicator=name, n=n, t=t,
                                 inputs='all reals |x|<=1e12' + (', multiplier any real |m|<=1000' if mult is not None else '')),
                     witness_fn=wit)


def main(chk):
    from vlib import mirsym, native
    from vlib.framework import run_jobs
    mir = mirsym.dump_mir()
    native.build(); native.build('release')
    if chk.tier == 'quick':
        ns, tf, to = (1, 2, 3, 4), (lambda n: 2 * n + 3), 60
    else:
        ns, tf, to = (1, 2, 3, 4, 5, 6), (lambda n: 3 * n + 3), 300
    jobs = [(r_family, (mir, name, n, tf(n), chk.seed, to), {}) for name in NAMES for n in ns if not (name in ('SD', 'BB') and n > 5)]      # SD(6), t=21: nlsat does not finish
    jobs += [(r_family, (mir, name, n, tf(n), chk.seed, to), {'reset_prefix': n + 1}) for name in NAMES for n in ns[:3]]
    cnt, problems = rfam.validate_translator(mir, [(nm, [3], F(2) if nm == 'BB' else None) for nm in NAMES], chk.seed)
    chk.extra['traces_validated'] = cnt
    if problems:
        chk.add([fam_result('translator validation', 'R', 'undecided', detail='; '.join(problems[:3]))])
    chk.add(run_jobs(jobs))
    hs = []
    for nm in ('MIN', 'MAX'):
        for n in ((1, 2, 3, 4) if chk.tier == 'quick' else (1, 2, 3, 4, 5, 6)):
            hs.append(k_minmax_exact(nm, n, n + 3 if chk.tier == 'quick' else 2 * n + 2))
    chk.add(kani.run_family_set('C01', hs, jobs=12, timeout_s=300 if chk.tier == 'quick' else 1200))
    chk.extra['mir_dump_s'] = round(mir.dump_s, 2)
    chk.assumptions += ['f64 arithmetic modelled as exact real arithmetic in engine R (rounding, NaN, inf, -0.0 not modelled there)',
                        'inputs bounded by 1e12 in magnitude (f64::INFINITY sentinel modelled as 1e400)',
                        'rustc MIR of /repo (nightly, overflow-checks=on) is what is executed; library models listed in coverage.library_models_used']
    chk.notes += ['rounding-error magnitude for full-range inputs', 'periods above the stated bound', 'history longer than t per family']


# ------------------------------------------------------------------------------------------------ engine K
from vlib import kani, native
from vlib.kani import KB, KOps


def k_minmax_exact(name, n, t):
    """Minimum / Maximum return exactly the least / greatest element of the last min(t, n) inputs, every finite f64 (ties, +-0.0)"""
    b = KB('c01_exact_%s_n%d_t%d' % (name.lower(), n, t), unwind=max(n, t) + 3,
           family='K:C01 %s n=%d: exactly the window %s for every finite f64 stream of length %d' % (name, n, 'minimum' if name == 'MIN' else 'maximum', t),
           bounds=dict(engine='K', indicator=name, n=n, t=t, inputs='every finite f64 (ties, signed zeros, subnormals)'))
    k = KOps(b)
    k.new('a', name, [n])
    vs = []
    cmpop = '<' if name == 'MIN' else '>'
    for i in range(t):
        v = b.anyf('x%d' % i, finite=True); vs.append(v)
        o = k.feed('a', 'scalar', ('var', v, ('sym', 'x%d' % i)))
        w = vs[max(0, i - n + 1):]
        b.emit('{ let mut m = %s; %s assert!(f64::from_bits(%s[0]) == m, "not the window extreme"); }' % (
            w[0], ' '.join('if %s %s m { m = %s; }' % (x, cmpop, x) for x in w[1:]), o))

    def confirm(vals):
        ops = k.concrete(vals)
        for prof in ('dev', 'release'):
            lines, res = kani.native_ops(ops, prof)
            xs = [kani.hexf(op[2]) for op in ops if op[0] == 'feed']
            fo = [o for op, o in zip(ops, res) if op[0] == 'feed']
            for i, o in enumerate(fo):
                w = xs[max(0, i - n + 1):i + 1]
                want = min(w) if name == 'MIN' else max(w)
                if o == 'panic' or o[0] != want:
                    return True, lines, '%s(%d) returns %r after %r, the window extreme is %r (%s)' % (name, n, o, xs[:i + 1], want, prof)
        return False, lines, 'native extreme exact'
    b.confirm = confirm
    return b
