"""C03  Oscillators equal their documented formulas wherever these are well-conditioned."""
from fractions import Fraction as F
import z3
from vlib import oracles as O, rcore, rfam
from vlib.mirsym import Executor, Unsupported, PathDead, R, is_sym
from vlib.rfam import ob_eq, ob_pred, ob_ratio, discharge, Ob
from vlib.framework import fam_result, run_jobs
from vlib.inds import IND

PMAX = 10 ** 6
CMAX = F(10) ** 6


def ratio_ob(label, impl, num, den, mags, scale, t, default=None):
    """impl == num/den (or `default` when den == 0), tolerance tau(t) * c * scale, c = max|mags| / |den| <= 1e6.
    Symbolic mode: exact comparison only (bad_tol = bad); the tolerance is applied by the native confirmation."""
    if O.sym(impl, num, den):
        nz = O.not_(O.eq(den, F(0)))
        bad = O.and_(nz, O.not_(O.eq(impl, R(num) / R(den))))
        if default is not None:
            bad = O.or_(bad, O.and_(O.eq(den, F(0)), O.not_(O.eq(impl, default))))
        return Ob(label, bad, bad)
    if den == 0:
        v = (default is not None and impl != default)
        return Ob(label, v, v)
    if O.sym(*mags):
        return Ob(label, impl != num / den, impl != num / den)
    c = max([abs(m) for m in mags] + [abs(den)]) / abs(den)
    if c > CMAX: return Ob(label, False, False)
    ref = num / den
    return Ob(label, impl != ref, abs(impl - ref) > O.tau(t) * c * scale)


def seq_ob(label, impl, ref, dens, mags, scale, t):
    """impl == ref where ref was built from ratios with denominators `dens` (all must be non-zero)"""
    if O.sym(impl, ref, *dens):
        g = O.and_(*[O.not_(O.eq(d, F(0))) for d in dens]) if dens else True
        bad = O.and_(g, O.not_(O.eq(impl, ref)))
        return Ob(label, bad, bad)
    if any(d == 0 for d in dens): return Ob(label, False, False)
    if O.sym(*mags): return Ob(label, impl != ref, impl != ref)
    mm = max([abs(m) for m in mags] + [F(1, 10 ** 30)])
    c = max([mm / abs(d) for d in dens] + [F(1)])
    if c > CMAX: return Ob(label, False, False)
    return Ob(label, impl != ref, abs(impl - ref) > O.tau(t) * c * scale)


def div_or(num, den, default):
    """num/den, `default` when den == 0 (generic numbers)"""
    if O.sym(num, den): return z3.If(R(den) == 0, R(default), R(num) / R(den))
    return default if den == 0 else num / den


def obligations(ops, outs):
    _, _, name, periods, mult = ops[0]
    fo = rfam.lineage_feeds(ops, outs, 'c' if any(op[0] == 'clone' for op in ops) else 'a')
    stream = [v for v, _ in fo]
    bars = isinstance(stream[0], (tuple, list))
    obs = []
    T = len(stream)
    pm = [[v[1], v[2], v[3]] if bars else [v] for v in stream]           # price magnitudes per step
    hist = lambda i: [x for k in range(i + 1) for x in pm[k]]
    n = periods[0] if periods else None
    lab = lambda i, s='': '%s step %d%s' % (name, i + 1, s)
    if name == 'RSI':
        ref = O.rsi_series(stream, O.alpha_of(n))
        for i in range(T): obs.append(ratio_ob(lab(i), fo[i][1][0], ref[i][0], ref[i][1], hist(i) + [F(1, 10)], 100, i + 1))
    elif name == 'FAST_STOCH':
        ref = O.fast_stoch_bars(stream, n) if bars else O.fast_stoch_scalar(stream, n)
        for i in range(T):
            obs.append(ratio_ob(lab(i), fo[i][1][0], 100 * ref[i][0], ref[i][1], O.window(hist(i), len(hist(i)) - 1, (3 if bars else 1) * n), 100, i + 1, default=F(50)))
    elif name == 'SLOW_STOCH':
        fs = O.fast_stoch_bars(stream, n) if bars else O.fast_stoch_scalar(stream, n)
        fv = [div_or(100 * a, b, F(50)) for a, b in fs]
        ref = O.ema_series(fv, O.alpha_of(periods[1]))
        for i in range(T):
            dens = [d for _, d in fs[:i + 1] if O.sym(d) or d != 0]
            # denominators that are zero select the constant 50: no conditioning issue there
            obs.append(seq_ob(lab(i), fo[i][1][0], ref[i], [d for d in dens if not O.sym(d)] if not O.sym(*dens) else [], hist(i), 100, i + 1))
    elif name == 'ROC':
        ref = O.roc_series(stream, n)
        for i in range(T): obs.append(ratio_ob(lab(i), fo[i][1][0], ref[i][0] , ref[i][1], [stream[i], ref[i][1]], 100, i + 1))
    elif name == 'ER':
        ref = O.er_series(stream, n)
        for i in range(T): obs.append(ratio_ob(lab(i), fo[i][1][0], ref[i][0], ref[i][1], O.window(stream, i, n + 1), 1, i + 1))
    elif name == 'PPO':
        f = O.ema_series(stream, O.alpha_of(periods[0])); sl = O.ema_series(stream, O.alpha_of(periods[1]))
        ppo = [(100 * (a - b), b) for a, b in zip(f, sl)]
        pv = [div_or(a, b, F(0)) for a, b in ppo]
        sig = O.ema_series(pv, O.alpha_of(periods[2]))
        for i in range(T):
            o = fo[i][1]
            dens = [b for _, b in ppo[:i + 1]]
            obs.append(ratio_ob(lab(i, ' ppo'), o[0], ppo[i][0], ppo[i][1], hist(i), 100, i + 1))
            obs.append(seq_ob(lab(i, ' signal'), o[1], sig[i], dens, hist(i), 100, i + 1))
            obs.append(seq_ob(lab(i, ' histogram'), o[2], pv[i] - sig[i], dens, hist(i), 100, i + 1))
    elif name == 'CCI':
        ref = O.cci_series(stream, n)
        for i in range(T):
            num, den, madv = ref[i]
            tps = [O.typical(b) for b in O.window(stream, i, n)]
            obs.append(ratio_ob(lab(i), fo[i][1][0], num, den, tps, F(1000, 15), i + 1, default=F(0)))
    elif name == 'MFI':
        ref = O.mfi_series(stream, n)
        for i in range(T):
            flows = [O.typical(b) * b[4] for b in O.window(stream, i, n + 1)]
            if i == 0: obs.append(ob_pred(lab(i), O.not_(O.eq(fo[i][1][0], F(50)))))
            else: obs.append(ratio_ob(lab(i), fo[i][1][0], ref[i][0], ref[i][1], flows, 100, i + 1))
    elif name == 'OBV':
        ref = O.obv_series(stream)
        cum = []
        acc = F(0)
        for b in stream:
            acc = acc + O.absv(b[4]); cum.append(acc)
        for i in range(T): obs.append(ob_eq(lab(i), fo[i][1][0], ref[i], cum[:i + 1], O.tau(i + 1)))
    return obs


def r_family(mir, name, mode, spec, t, seed, timeout_s, required=True, reset_prefix=0, clone_at=None):
    """spec: list of periods, each an int or 'p' (symbolic integer: every period at once)"""
    d = IND[name]
    ps, passume = [], []
    for k, v in enumerate(spec):
        if v == 'p':
            p = z3.Int('p%d' % k); ps.append(p); passume.append(z3.And(p >= 1, p <= PMAX))
        else:
            ps.append(v)
    n = spec[0] if spec and spec[0] != 'p' else None
    sympos = [k for k, v in enumerate(spec) if v == 'p']
    fam = 'R:C03 %s %s periods=%s t=%d' % (name, mode, ','.join(map(str, spec)), t)
    ex = Executor(mir, assumptions=passume)
    stream = rcore.reals('x', t) if mode == 'scalar' else rcore.bar_vars('b', t)
    ops = rfam.ops_stream(name, ps, None, stream)
    extra_assume = []
    if reset_prefix and name != 'SLOW_STOCH':
        pre = rfam.make_stream(mode, reset_prefix, 'h')
        extra_assume = rfam.stream_assumptions(pre, 'validbar' if mode == 'bar' else 'positive')
        ops = rfam.with_reset_prefix(ops, pre)
        fam += ' after %d inputs and a reset' % reset_prefix
    if clone_at is not None and name != 'SLOW_STOCH':
        ops = rfam.with_clone_at(ops, clone_at)
        fam += ' continued on a clone taken after %d inputs' % clone_at
    if name == 'SLOW_STOCH':          # compositional: a FastStochastic instance (real code) fed the same inputs
        ops = [ops[0], ('new', 'f', 'FAST_STOCH', (ps[0],), None)] + [o for v in stream for o in (('feed', 'a', v), ('feed', 'f', v))]
    assume = list(passume) + rcore.bounds(rfam.ops_vars(ops)) + extra_assume
    if mode == 'scalar': assume += [x > 0 for x in stream]
    else:
        for b in stream: assume += rcore.valid_bar(b)
    try:
        outs, _ = rfam.run_ops_r(ex, ops)
    except (Unsupported, PathDead) as e:
        return fam_result(fam, 'R', 'undecided', detail='R cannot encode: %r' % (e,), bounds=dict(n=n, t=t), required=required)
    if name == 'SLOW_STOCH':
        # SlowStochastic == closed-form EMA (symbolic or concrete alpha) of the values the real FastStochastic code
        # returns on the same stream; FastStochastic == its formula is the FAST_STOCH family of this same check.
        fvals = [o[0] for _, o in rfam.feeds(ops, outs, 'f')]
        ref = O.ema_series(fvals, O.alpha_of(ps[1]))
        obs = [ob_pred('SLOW_STOCH step %d == EMA(FastStochastic outputs)' % (i + 1), O.not_(O.eq(o[0], ref[i])))
               for i, (_, o) in enumerate(rfam.feeds(ops, outs, 'a'))]
    else:
        obs = obligations(ops, outs)
    exp = obligations(ops, [None if o is None else [x + 1 for x in o] for o in outs])
    wit = lambda: O.or_(*[o.bad for o in exp[-1:]])
    r = discharge(ex, ops, outs, obs, assume, obligations, seed=seed, timeout_s=timeout_s, family=fam,
                     bounds=dict(engine='R', indicator=name, input=mode, periods=spec, t=t,
                                 inputs='positive reals <= 1e12' if mode == 'scalar' else 'bars 0 < low <= open,close <= high <= 1e12, volume >= 0, otherwise independent',
                                 ema_periods='every period 1..=1e6 (symbolic)' if sympos else None),
                     witness_fn=wit, int_vars=[p for p in ps if is_sym(p)])
    r['required'] = required
    return r


def main(chk):
    from vlib import mirsym, native
    mir = mirsym.dump_mir()
    native.build(); native.build('release')
    q = chk.tier == 'quick'
    ns = (1, 2, 3, 4) if q else (1, 2, 3, 4, 5)
    to = 90 if q else 300
    tf = (lambda n: 2 * n + 3) if q else (lambda n: 3 * n + 3)
    jobs = []
    J = lambda *a, **k: jobs.append((r_family, (mir,) + a + (chk.seed, to), k))
    J('RSI', 'scalar', ['p'], 8 if q else 12)
    J('OBV', 'bar', [], 8 if q else 12)
    for n in ns:
        for name, mode in (('FAST_STOCH', 'scalar'), ('FAST_STOCH', 'bar'), ('ROC', 'scalar'), ('ER', 'scalar'), ('CCI', 'bar'), ('MFI', 'bar')):
            if q and n > 3 and (name, mode) in (('CCI', 'bar'), ('FAST_STOCH', 'bar'), ('FAST_STOCH', 'scalar')): continue     # > 100 s: thorough tier
            J(name, mode, [n], tf(n))
    for n in ns[:3] if q else ns[:4]:
        J('SLOW_STOCH', 'scalar', [n, 'p'], tf(n)); J('SLOW_STOCH', 'bar', [n, 'p'], tf(n))
    for spec in ([1, 1, 1], [1, 2, 3], [2, 1, 1], [3, 2, 2], [2, 4, 3]) + (() if q else ([5, 3, 4], [12, 26, 9])):
        J('PPO', 'scalar', list(spec), 7 if q else 10)
    # life-cycle variants: the same formulas after a history and a reset, and on a clone taken mid-stream
    for n in ns[:2]:
        for name, mode in (('FAST_STOCH', 'scalar'), ('ROC', 'scalar'), ('ER', 'scalar'), ('CCI', 'bar'), ('MFI', 'bar')):
            J(name, mode, [n], tf(n), reset_prefix=n + 2); J(name, mode, [n], tf(n), clone_at=n + 1)
    J('RSI', 'scalar', [3], 7, reset_prefix=3); J('RSI', 'scalar', [2], 6, clone_at=3); J('RSI', 'scalar', [3], 7, clone_at=2)
    J('OBV', 'bar', [], 6, reset_prefix=3); J('OBV', 'bar', [], 6, clone_at=3)
    J('PPO', 'scalar', [2, 4, 3], 6, reset_prefix=3); J('PPO', 'scalar', [2, 4, 3], 6, clone_at=3)
    if not q:      # ceilings: symbolic EMA periods inside ratio oscillators (hard NRA; not required)
        J('PPO', 'scalar', ['p', 'p', 'p'], 6, required=False)
    cnt, problems = rfam.validate_translator(mir, [('RSI', [3], None), ('FAST_STOCH', [3], None), ('SLOW_STOCH', [3, 2], None), ('ROC', [3], None),
                                                   ('ER', [3], None), ('PPO', [2, 4, 3], None), ('CCI', [3], None), ('MFI', [3], None), ('OBV', [], None)], chk.seed)
    chk.extra['traces_validated'] = cnt
    if problems: chk.add([fam_result('translator validation', 'R', 'undecided', detail='; '.join(problems[:3]))])
    chk.add(run_jobs(jobs))
    chk.assumptions += ['f64 arithmetic modelled as exact real arithmetic in engine R', 'prices positive and <= 1e12; valid bars',
                        'an obligation applies only where the reference denominator is non-zero (zero denominators are C08)',
                        'a/b encoded as a*(1/b): unspecified where b = 0 in both encodings']
    chk.notes += ['rounding-error magnitude / the condition-number clause for full-range inputs (only applied when confirming a solver model natively)']
