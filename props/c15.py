"""C15  Composite indicators agree with wiring their public building blocks by hand."""
from fractions import Fraction as F
import z3
from vlib import oracles as O, rcore, rfam
from vlib.rfam import Ob, run_family, make_stream, stream_assumptions, make_periods
from vlib.framework import fam_result, run_jobs
from vlib.mirsym import is_sym, R
from vlib.inds import IND


def mags(v):
    return [v[1], v[2], v[3]] if isinstance(v, (tuple, list)) else [v]


def cmp_ob(label, a, b, scale, tol, guard=True):
    if O.sym(a, b, guard):
        bad = O.and_(guard, O.not_(O.eq(a, b))); return Ob(label, bad, bad)
    if not guard: return Ob(label, False, False)
    if O.sym(*scale) or O.sym(tol): return Ob(label, a != b, a != b)
    s = max([abs(x) for x in scale] + [F(0)])
    return Ob(label, a != b, abs(a - b) > tol * s)


def build(name, mode, per, mult, stream, reset_at=None):
    """-> ops wiring the composite (slot a) and its public parts"""
    N = lambda slot, nm, p, m=None: ('new', slot, nm, tuple(p), m)
    ops = [N('a', name, per, mult)]
    if name == 'BB':
        ops += [N('s', 'SMA', per), N('d', 'SD', per)]
        for x in stream: ops += [('feed', 'a', x), ('feed', 's', x), ('feed', 'd', x)]
    elif name == 'SLOW_STOCH':
        ops += [N('f', 'FAST_STOCH', per[:1]), N('e', 'EMA', per[1:])]
        for x in stream: ops += [('feed', 'a', x), ('feed', 'f', x), ('pipe', 'e', 'f', 0)]
    elif name == 'ATR':
        ops += [N('t', 'TRUE_RANGE', []), N('e', 'EMA', per)]
        for x in stream: ops += [('feed', 'a', x), ('feed', 't', x), ('pipe', 'e', 't', 0)]
    elif name in ('MACD', 'PPO'):
        ops += [N('f', 'EMA', per[0:1]), N('s', 'EMA', per[1:2]), N('g', 'EMA', per[2:3])]
        for x in stream: ops += [('feed', 'a', x), ('feed', 'f', x), ('feed', 's', x)]      # signal EMA fed below by the obligations (needs the line)
    elif name == 'KC':
        ops += [N('e', 'EMA', per), N('r', 'ATR', per)]
        for x in stream:
            tp = O.typical(x) if isinstance(x, tuple) else x
            ops += [('feed', 'a', x), ('feed', 'e', tp), ('feed', 'r', x)]
    elif name == 'CE':
        ops += [N('r', 'ATR', per), N('n', 'MIN', per), N('x', 'MAX', per)]
        for b in stream: ops += [('feed', 'a', b), ('feed', 'r', b), ('feed', 'n', b[2]), ('feed', 'x', b[1])]
    elif name == 'CCI':
        ops += [N('s', 'SMA', per), N('d', 'MAD', per)]
        for b in stream: ops += [('feed', 'a', b), ('feed', 's', O.typical(b)), ('feed', 'd', O.typical(b))]
    if reset_at is not None:
        # reset the composite and every part after `reset_at` inputs (the composite's reset must reach all its parts)
        slots = [op[1] for op in ops if op[0] == 'new']
        out, cnt = [], 0
        for op in ops:
            if op[0] in ('feed', 'pipe') and op[1] == 'a':
                if cnt == reset_at: out += [('reset', s) for s in slots]
                cnt += 1
            out.append(op)
        ops = out
    return ops


def obligations(ops, outs):
    _, _, name, per, mult = ops[0]
    fa = rfam.feeds(ops, outs, 'a')
    part = lambda s: [o for _, o in rfam.feeds(ops, outs, s)]
    obs, hist = [], []
    sig = None
    nreset = None
    cnt = 0
    for op in ops:
        if op[0] == 'reset' and op[1] == 'a': nreset = cnt
        if op[0] in ('feed', 'pipe') and op[1] == 'a': cnt += 1
    for i, (v, o) in enumerate(fa):
        if nreset is not None and i == nreset: sig = None
        hist += mags(v)
        t = i + 1
        tol = O.tau(t) * (O.maxv(F(1), O.absv(mult)) if mult is not None else 1)
        lab = lambda s: '%s%s step %d: %s' % (name, tuple(per) if not any(is_sym(p) for p in per) else '', t, s)
        if name == 'BB':
            s, d = part('s')[i][0], part('d')[i][0]
            obs.append(cmp_ob(lab('average == SMA'), o[0], s, hist, tol))
            hw = o[1] - o[0]
            if O.sym(hw, d): obs.append(Ob(lab('half-width^2 == (mult*SD)^2'), O.not_(O.eq(hw * hw, mult * mult * d * d)), None))
            else: obs.append(Ob(lab('half-width^2 == (mult*SD)^2'), hw * hw != mult * mult * d * d, abs(hw * hw - mult * mult * d * d) > tol * max(abs(x) for x in hist) ** 2))
            obs.append(cmp_ob(lab('lower symmetric'), o[0] - o[2], hw, hist, tol))
        elif name in ('SLOW_STOCH', 'ATR'):
            obs.append(cmp_ob(lab('== EMA fed with the part'), o[0], part('e')[i][0], hist if name == 'ATR' else [F(100)], tol))
        elif name in ('MACD', 'PPO'):
            f, s = part('f')[i][0], part('s')[i][0]
            if name == 'MACD':
                line = f - s; g = True
            else:
                g = O.not_(O.eq(s, F(0)))
                line = (100 * (f - s) / s) if (O.sym(s) or s != 0) else F(0)
            # signal = EMA(line) with the third period: closed form over the hand-wired line values
            sig = (sig or []) + [line]
            alpha = O.alpha_of(per[2])
            sref = O.ema_series(sig, alpha)[-1]
            sc = hist if name == 'MACD' else [F(100)]
            obs.append(cmp_ob(lab('line == combination of two standalone EMAs'), o[0], line, sc, tol, g))
            obs.append(cmp_ob(lab('signal == EMA(line)'), o[1], sref, sc, tol, g))
            obs.append(cmp_ob(lab('histogram == line - signal'), o[2], line - sref, sc, tol, g))
        elif name == 'KC':
            e, r = part('e')[i][0], part('r')[i][0]
            obs.append(cmp_ob(lab('average == EMA'), o[0], e, hist, tol))
            obs.append(cmp_ob(lab('upper == EMA + mult*ATR'), o[1], e + mult * r, hist, tol))
            obs.append(cmp_ob(lab('lower == EMA - mult*ATR'), o[2], e - mult * r, hist, tol))
        elif name == 'CE':
            r, mn, mx = part('r')[i][0], part('n')[i][0], part('x')[i][0]
            obs.append(cmp_ob(lab('long == Maximum(high) - mult*ATR'), o[0], mx - mult * r, hist, tol))
            obs.append(cmp_ob(lab('short == Minimum(low) + mult*ATR'), o[1], mn + mult * r, hist, tol))
        elif name == 'CCI':
            s, d = part('s')[i][0], part('d')[i][0]
            tp = O.typical(v)
            den = F(0.015) * d
            if O.sym(den, tp, s):
                ref = z3.If(R(d) == 0, z3.RealVal(0), (R(tp) - R(s)) / R(den))
                obs.append(Ob(lab('== (TP - SMA(TP)) / (0.015 MAD(TP)), 0 when MAD is 0'), O.not_(O.eq(o[0], ref)), None))
            elif den != 0:
                c = max(abs(x) for x in [tp, s]) / abs(den)
                ok = c <= 10 ** 6
                obs.append(Ob(lab('== (TP - SMA(TP)) / (0.015 MAD(TP))'), ok and o[0] != (tp - s) / den, ok and abs(o[0] - (tp - s) / den) > O.tau(t) * max(c, 1) * F(1000, 15)))
    return obs


def r_family(mir, name, mode, spec, t, seed, to, reset_at=None, tiny=False):
    ps, passume = make_periods(spec)
    mult = z3.Real('mult') if IND[name]['mult'] else None
    stream = make_stream(mode, t)
    ops = build(name, mode, ps, mult, stream, reset_at)
    kind = ('validbar' if (mode == 'bar' and name in ('CCI',)) else 'any') if True else ('validbar' if (mode == 'bar' and name in ('CCI',)) else 'any')
    assume = passume + stream_assumptions(stream, kind) + ([mult >= -1000, mult <= 1000] if mult is not None else [])
    if tiny:
        # the same family in a tiny price unit (prices in [2^-60, 2^-50]): an absolute threshold hidden in a composite shows here
        lo_, hi_ = F(1, 2 ** 60), F(1, 2 ** 50)
        for v in stream:
            for x in (v[:4] if isinstance(v, tuple) else (v,)): assume += [x >= lo_, x <= hi_]
    fam = 'R:C15 %s %s periods=%s t=%d%s%s' % (name, mode, ','.join(map(str, spec)), t, '' if reset_at is None else ' reset after %d' % reset_at, ' (prices in [2^-60, 2^-50])' if tiny else '')
    return run_family(mir, fam, ops, assume, obligations, seed, to, exec_assume=passume, int_vars=[p for p in ps if is_sym(p)], witness=None,
                      bounds=dict(engine='R', composite=name, input=mode, periods=spec, t=t, parts='separately constructed public indicators fed the same symbolic stream'))


def main(chk):
    from vlib import mirsym, native
    mir = mirsym.dump_mir()
    native.build(); native.build('release')
    q = chk.tier == 'quick'
    to = 90 if q else 300
    ns = (1, 2, 3, 4) if q else (1, 2, 3, 4, 5)
    jobs = []
    J = lambda *a: jobs.append((r_family, (mir,) + a + (chk.seed, to), {}))
    for n in ns:
        t = 2 * n + 3
        J('BB', 'scalar', [n], t); J('CE', 'bar', [n], t); J('CCI', 'bar', [n], t)
        for e in (1, 2, 3): J('SLOW_STOCH', 'scalar', [n, e], t)
        J('SLOW_STOCH', 'bar', [n, 2], t)
    T = 8 if q else 12
    J('ATR', 'scalar', ['p'], T); J('ATR', 'bar', ['p'], T)
    J('MACD', 'scalar', ['p', 'p', 'p'], T)
    J('KC', 'scalar', ['p'], T); J('KC', 'bar', ['p'], T)
    for spec in ([1, 1, 1], [1, 2, 3], [3, 2, 2], [2, 4, 3]): J('PPO', 'scalar', spec, 6)
    for n in ns[:3]:
        for nm, md in (('CCI', 'bar'), ('BB', 'scalar'), ('SLOW_STOCH', 'scalar')): jobs.append((r_family, (mir, nm, md, [n] if nm != 'SLOW_STOCH' else [n, 2], 2 * n + 3, chk.seed, to), {'tiny': True}))
    # with a reset in the middle of the stream (composite and parts reset together)
    R_ = lambda *a, **k: jobs.append((r_family, (mir,) + a + (chk.seed, to), k))
    for n in ns[:3]:
        for nm, md in (('BB', 'scalar'), ('CE', 'bar'), ('CCI', 'bar')): R_(nm, md, [n], 2 * n + 3, reset_at=n + 1)
        R_('SLOW_STOCH', 'scalar', [n, 2], 2 * n + 3, reset_at=n + 1)
    for nm, md, sp in (('ATR', 'bar', [3]), ('MACD', 'scalar', [2, 3, 2]), ('KC', 'bar', [3]), ('PPO', 'scalar', [2, 3, 2])): R_(nm, md, sp, 7, reset_at=3)
    chk.add(run_jobs(jobs))
    chk.assumptions += ['both sides of every comparison are the real code (composite next() vs separately constructed public parts), executed from MIR over exact reals',
                        'EMA periods symbolic (every period) for ATR, MACD, KC']
    chk.notes += ['rounding differences between a composite and its hand wiring for full-range floats (today the instructions are identical)', 'periods above the bound']
