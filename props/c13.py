"""C13  Incremental accumulators do not drift from recomputation over long streams.

What a solver can decide here: (i) for ALL stream lengths, by one inductive step from an arbitrary
state in which every accumulator equals its definition over the ring buffer, in exact arithmetic:
the output equals the from-scratch statistic of the new window and the invariant is re-established
(no algebraic drift: nothing evicted is left in an accumulator); (ii) bounded unrolling from new()
against from-scratch evaluation; (iii) [engine K] short bit-precise runs.  Accumulated *rounding*
over 10^6 steps is outside bounded model checking and is stated as such."""
from fractions import Fraction as F
import z3
from vlib import oracles as O, rcore, rfam
from vlib.rfam import Ob, ob_eq, ob_pred
from vlib.framework import fam_result, run_jobs
from vlib.mirsym import Executor, Unsupported, PathDead, Agg, Arr, Ptr, is_sym, R
from vlib.inds import IND, RInst
from props import c01, c03


def field(agg, name):
    return agg.f[agg.names.index(name)]


def with_fields(agg, **kw):
    f = list(agg.f)
    for k, v in kw.items(): f[agg.names.index(k)] = v
    return Agg(agg.kind, f, agg.names)


def layout(n, index, count, w, fill=F(0)):
    """ring buffer contents for a logical window w (oldest first)"""
    if count < n: return list(w) + [fill] * (n - count)
    d = [None] * n
    for j, x in enumerate(w): d[(index + j) % n] = x
    return d


def box_ptr(state):
    return field(state, 'deque').f[0].f[0]


def states(n):
    """reachable (index, count) pairs of the plain ring indicators"""
    return [(c % n, c) for c in range(n)] + [(i, n) for i in range(n)]


def build_state(ex, inst, name, n, index, count, w, mult=None):
    """overwrite the instance's state with: accumulators := their definition over window w"""
    st = inst.state()
    target = st
    if name == 'BB': target = field(st, 'sd')
    d = layout(n, index, count, w)
    ex.heap[box_ptr(target).oid] = Arr(d)
    kw = dict(index=index, count=count)
    if name == 'SMA' or name == 'MAD': kw['sum'] = O.total(w) if w else F(0)
    elif name == 'WMA':
        kw['weight'] = F(count)
        kw['sum'] = O.total([(j + 1) * w[j] for j in range(len(w))]) if w else F(0)
        kw['sum_flat'] = O.total(w) if w else F(0)
    elif name in ('SD', 'BB'):
        kw['m'] = O.mean(w) if w else F(0)
        kw['m2'] = O.total([(x - O.mean(w)) * (x - O.mean(w)) for x in w]) if w else F(0)
    target2 = with_fields(target, **kw)
    if name == 'BB': st = with_fields(st, sd=target2)
    else: st = target2
    ex.heap[inst.ptr.oid] = st


def state_obligations(ex, inst, name, n, index2, count2, w2, lab):
    """post-state equals the definition over the new window"""
    st = inst.state()
    target = field(st, 'sd') if name == 'BB' else st
    obs = []
    def eqf(nm, val):
        obs.append(ob_pred('%s: field %s re-established' % (lab, nm), O.not_(O.eq(field(target, nm), val))))
    arr = ex.heap[box_ptr(target).oid]
    exp = layout(n, index2, count2, w2)
    for k in range(n):
        obs.append(ob_pred('%s: ring slot %d' % (lab, k), O.not_(O.eq(arr.e[k], exp[k]))))
    eqf('index', index2); eqf('count', count2)
    if name in ('SMA', 'MAD'): eqf('sum', O.total(w2))
    elif name == 'WMA':
        eqf('weight', F(count2)); eqf('sum_flat', O.total(w2)); eqf('sum', O.total([(j + 1) * w2[j] for j in range(len(w2))]))
    elif name in ('SD', 'BB'):
        eqf('m', O.mean(w2)); eqf('m2', O.total([(x - O.mean(w2)) * (x - O.mean(w2)) for x in w2]))
    return obs


def induct_family(mir, name, n, seed, to):
    """one inductive step for every reachable cursor state of period n (floats symbolic)"""
    fam = 'R:C13 inductive step %s n=%d (all stream lengths)' % (name, n)
    st = rcore.Stats()
    total = done = 0
    fns, libs = set(), set()
    detail = ''
    try:
        for (index, count) in states(n):
            ex = Executor(mir)
            mult = z3.Real('mult') if name == 'BB' else None
            inst = RInst.create(ex, name, [n], mult)
            w = rcore.reals('w', count)
            x = z3.Real('x')
            build_state(ex, inst, name, n, index, count, w, mult)
            out = inst.next(x)
            w2 = (w + [x])[-n:]
            count2 = min(count + 1, n); index2 = (index + 1) % n
            lab = '%s(%d) from (index=%d,count=%d)' % (name, n, index, count)
            # output equals the from-scratch statistic of the new window
            ops = [('new', 'a', name, (n,), mult)] + [('feed', 'a', v) for v in w2]
            ref_obs = c01.obligations(ops, [None] + [None] * (len(w2) - 1) + [out]) if False else None
            obs = []
            if name == 'SMA': obs.append(ob_pred(lab + ': output == mean(window)', O.not_(O.eq(out[0], O.mean(w2)))))
            elif name == 'WMA': obs.append(ob_pred(lab + ': output == wma(window)', O.not_(O.eq(out[0], O.wma(w2)))))
            elif name == 'MAD': obs.append(ob_pred(lab + ': output == mad(window)', O.not_(O.eq(out[0], O.mad(w2)))))
            elif name == 'SD':
                obs.append(ob_pred(lab + ': output^2 == var(window)', O.not_(O.eq(out[0] * out[0], O.pvar(w2)))))
                obs.append(ob_pred(lab + ': variance not negative', out[0] < 0))
            elif name == 'BB':
                obs.append(ob_pred(lab + ': average == mean(window)', O.not_(O.eq(out[0], O.mean(w2)))))
                hw = out[1] - out[0]
                obs.append(ob_pred(lab + ': half-width^2 == mult^2 var', O.not_(O.eq(hw * hw, mult * mult * O.pvar(w2)))))
            obs += state_obligations(ex, inst, name, n, index2, count2, w2, lab)
            assume = rcore.bounds(w + [x]) + list(ex.defs) + list(ex.nopanic) + ([mult >= 0, mult <= 1000] if mult is not None else [])
            fns |= set(ex.called); libs |= set(ex.lib_called)
            for o in obs:
                total += 1
                if not (is_sym(o.bad) or o.bad is True):
                    if o.bad is False: done += 1
                    continue
                r, _ = rcore.solve(st, assume, o.bad, to, seed, label=o.label)
                if r == 'unsat': done += 1
                elif not detail: detail = 'inductive step not closed (%s): %s' % (r, o.label)
    except (Unsupported, PathDead, ValueError, AttributeError) as e:
        return fam_result(fam, 'R', 'undecided', detail='R cannot encode / invariant not applicable: %r' % (e,), required=False,
                          bounds=dict(engine='R', indicator=name, n=n, history='all lengths (induction)'))
    ok = (done == total)
    return fam_result(fam, 'R', 'ok' if ok else 'undecided', required=False, detail=detail, obligations=total, discharged=done,
                      symbolic_inputs=n + 1, witness='alive', stats=st.as_dict(), functions=sorted(fns), lib_models=sorted(libs),
                      bounds=dict(engine='R', indicator=name, n=n, history='all stream lengths, by one inductive step from every reachable cursor state',
                                  invariant='every accumulator equals its definition over the ring buffer; unfilled slots are 0'),
                      sample={'state': '(index,count) in %r, window values symbolic' % (states(n),), 'obligation': 'output == statistic(new window) and invariant re-established'})


def unroll_family(mir, name, n, t, seed, to):
    """bounded unrolling from new(): reuse the C01 / C03 obligations at a deeper horizon"""
    if name in c01.NAMES:
        r = c01.r_family(mir, name, n, t, seed, to)
    else:
        r = c03.r_family(mir, name, 'bar', [n], t, seed, to)
    r['family'] = r['family'].replace('R:C01', 'R:C13 unrolled').replace('R:C03', 'R:C13 unrolled')
    return r


def main(chk):
    from vlib import mirsym, native
    mir = mirsym.dump_mir()
    native.build(); native.build('release')
    q = chk.tier == 'quick'
    to = 90 if q else 300
    jobs = []
    for n in ((1, 2, 3, 4) if q else (1, 2, 3, 4, 5, 6)):
        for name in ('SMA', 'WMA', 'SD', 'MAD', 'BB'):
            jobs.append((induct_family, (mir, name, n, chk.seed, to), {}))
    for n in ((1, 2, 3) if q else (1, 2, 3, 4, 5)):
        for name in ('SMA', 'WMA', 'SD', 'BB', 'MAD', 'MIN', 'MAX', 'CCI', 'MFI'):
            if q and n > 2 and name in ('MFI', 'CCI'): continue          # > 100 s under load: thorough tier
            jobs.append((unroll_family, (mir, name, n, (3 * n + 4) if q else (4 * n + 4), chk.seed, to), {}))
    chk.add(run_jobs(jobs))
    hs = [k_bb_mean_table(2, 6, chk.seed)] + ([k_bb_mean(2, 5), k_bb_mean_table(3, 8, chk.seed), k_bb_mean(3, 6)] if not q else [])
    chk.add(kani.run_family_set('C13', hs, jobs=4, timeout_s=240 if q else 900))
    chk.assumptions += ['f64 arithmetic modelled as exact real arithmetic in engine R: what is decided is the absence of ALGEBRAIC drift',
                        'the inductive invariant (each accumulator equals its definition over the ring buffer, unfilled slots are 0) is hand-written over field names; '
                        'a failed step is reported as ceiling-not-reached, never as a violation']
    chk.notes += ['accumulated floating-point rounding over 10^5..10^6 steps: a numerically worse but algebraically equal update order would pass',
                  'periods above the bound']


# ------------------------------------------------------------------------------------------------ engine K (bug hunting only)
from vlib import kani, native
from vlib.kani import KB, KOps


CANCEL_TAB = [1000.0, 2.0, 2.000001, 1.999999, 2.0000005]


def k_bb_mean_table(n, t, seed):
    """same assertion on an alphabet built to provoke cancellation (a spike, then ticks of 1e-6 around a level); sqrt stubbed
    (the average does not depend on it)"""
    tab = CANCEL_TAB[seed % len(CANCEL_TAB):] + CANCEL_TAB[:seed % len(CANCEL_TAB)]
    b = KB('c13_bb_mean_tab_n%d_t%d' % (n, t), unwind=n + 3, stub_sqrt=True,
           family='K:C13 BB n=%d, %d inputs symbolic over a cancellation alphabet: average within 1e-8 of the window mean' % (n, t),
           bounds=dict(engine='K', indicator='BB', n=n, t=t, inputs='each input symbolic over %r' % (tab,), stubs=['f64::sqrt -> arbitrary value (the average does not depend on it)']))
    k = KOps(b)
    k.new('a', 'BB', [n], '2.0')
    vs = []
    for i in range(t):
        v = b.pick('x%d' % i, tab); k.tables['x%d' % i] = tab
        vs.append(v)
        o = k.feed('a', 'scalar', ('var', v, ('pick', 'x%d' % i)))
        w = vs[max(0, i - n + 1):]
        b.emit('{ let m = (%s) / %d.0; let d = f64::from_bits(%s[0]) - m; assert!(d <= 1e-8 && d >= -1e-8, "Bollinger average drifted from the window mean"); }' % (' + '.join(w), len(w), o))

    def confirm(vals):
        ops = k.concrete(vals)
        lines, res = kani.native_ops(ops)
        xs = [kani.hexf(op[2]) for op in ops if op[0] == 'feed']
        fo = [o for op, o in zip(ops, res) if op[0] == 'feed']
        from fractions import Fraction as F
        for i, o in enumerate(fo):
            w = xs[max(0, i - n + 1):i + 1]
            ref = sum(F(x) for x in w) / len(w)
            if o == 'panic' or abs(F(o[0]) - ref) > F(1, 10 ** 8):
                return True, lines, 'BB(%d) average %r vs exact window mean %r after inputs %r' % (n, o, float(ref), xs[:i + 1])
        return False, lines, 'native average within tolerance'
    b.confirm = confirm
    return b


def k_bb_mean(n, t):
    """bit-precise, short horizon: Bollinger average vs the window mean in a three-decade price band.  CBMC is used here as a
    bug finder (Kroening et al.): a counterexample found and reproduced natively is a violation, a timeout only means the ceiling
    was not reached -- the family is not required."""
    b = KB('c13_bb_mean_n%d_t%d' % (n, t), unwind=n + 3, required=False,
           family='K:C13 BB n=%d, %d inputs in [1, 1000]: average within 1e-8 of the mean of the last %d inputs (bug hunting, not required)' % (n, t, n),
           bounds=dict(engine='K', indicator='BB', n=n, t=t, inputs='every f64 in [1, 1000]', note='bug hunting only: a timeout is not a verdict'))
    k = KOps(b)
    k.new('a', 'BB', [n], '2.0')
    vs = []
    for i in range(t):
        v = b.anyf('x%d' % i, finite=True, cond='{v} >= 1.0 && {v} <= 1000.0')
        vs.append(v)
        o = k.feed('a', 'scalar', ('var', v, ('sym', 'x%d' % i)))
        w = vs[max(0, i - n + 1):]
        b.emit('{ let m = (%s) / %d.0; let d = f64::from_bits(%s[0]) - m; assert!(d <= 1e-8 && d >= -1e-8, "Bollinger average drifted from the window mean"); }' % (' + '.join(w), len(w), o))

    def confirm(vals):
        ops = k.concrete(vals)
        lines, res = kani.native_ops(ops)
        xs = [kani.hexf(op[2]) for op in ops if op[0] == 'feed']
        fo = [o for op, o in zip(ops, res) if op[0] == 'feed']
        from fractions import Fraction as F
        for i, o in enumerate(fo):
            w = xs[max(0, i - n + 1):i + 1]
            ref = sum(F(x) for x in w) / len(w)
            if o == 'panic' or abs(F(o[0]) - ref) > F(1, 10 ** 8):
                return True, lines, 'BB(%d) average %r vs exact window mean %r after inputs %r' % (n, o, float(ref), xs[:i + 1])
        return False, lines, 'native average within tolerance'
    b.confirm = confirm
    return b
