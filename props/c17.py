"""C17  Windowed indicators forget: only the last n (or n+1) inputs matter."""
from fractions import Fraction as F
import z3
from vlib import oracles as O, rcore, rfam
from vlib.rfam import Ob, run_family, make_stream, stream_assumptions
from vlib.framework import fam_result, run_jobs
from vlib.mirsym import is_sym, R
from vlib.inds import IND

LAG = {'SMA': 0, 'WMA': 0, 'SD': 0, 'MAD': 0, 'MIN': 0, 'MAX': 0, 'FAST_STOCH': 0, 'BB': 0, 'CCI': 0, 'ROC': 1, 'ER': 1, 'MFI': 1}
EXACT = ('MIN', 'MAX')
CMAX = F(10) ** 6


def mags(v):
    return [v[1], v[2], v[3]] if isinstance(v, (tuple, list)) else [v]


def cond_number(name, n, suffix):
    """condition number of the ratio indicators on the window (concrete values); None = no ratio"""
    try:
        if name == 'FAST_STOCH':
            num, den = (O.fast_stoch_bars if isinstance(suffix[0], tuple) else O.fast_stoch_scalar)(suffix, n)[-1]
            m = max(abs(x) for v in suffix for x in mags(v))
        elif name == 'ROC':
            num, den = O.roc_series(suffix, n)[-1]; m = max(abs(x) for x in suffix) * 100
        elif name == 'ER':
            num, den = O.er_series(suffix, n)[-1]; m = max(abs(x) for x in suffix)
        elif name == 'MFI':
            num, den = O.mfi_series(suffix, n)[-1]; m = max([abs(O.typical(b) * b[4]) for b in suffix] + [F(0)])
        elif name == 'CCI':
            num, den, _ = O.cci_series(suffix, n)[-1]; m = max(abs(O.typical(b)) for b in suffix)
        else:
            return F(1)
    except ZeroDivisionError:
        return None
    if den == 0: return None
    return max(F(1), m / abs(den))


def obligations(ops, outs):
    """slot a: prefix + suffix; slot b: fresh instance fed the suffix only; final outputs equal"""
    _, _, name, periods, mult = ops[0]
    n = periods[0]
    fa, fb = rfam.feeds(ops, outs, 'a'), rfam.feeds(ops, outs, 'b')
    oa, ob = fa[-1][1], fb[-1][1]
    hist = [x for v, _ in fa for x in mags(v)]
    suffix = [v for v, _ in fb]
    t = len(fa)
    obs = []
    scale = {'FAST_STOCH': 100, 'ROC': 100, 'MFI': 100, 'ER': 1, 'CCI': F(1000, 15)}.get(name)
    for k, (a, b) in enumerate(zip(oa, ob)):
        lab = '%s(%s) output[%d] after %d inputs == fresh instance fed the last %d' % (name, n, k, t, len(fb))
        if O.sym(a, b):
            bad = O.not_(O.eq(a, b)); obs.append(Ob(lab, bad, bad)); continue
        if name in EXACT or O.sym(*hist):
            obs.append(Ob(lab, a != b, a != b)); continue
        if scale is not None:
            c = cond_number(name, n, suffix)
            if c is None or c > CMAX: obs.append(Ob(lab, False, False)); continue
            tol = O.tau(t) * c * scale
        else:
            tol = O.tau(t) * max(abs(x) for x in hist) * (max(F(1), abs(mult)) if mult is not None else 1)
            if name == 'SD':      # compare variances
                d = abs(a * a - b * b); tol = O.tau(t) * max(abs(x) for x in hist) ** 2
                obs.append(Ob(lab, a != b, d > tol)); continue
        obs.append(Ob(lab, a != b, abs(a - b) > tol))
    return obs


obligations.tail_only = True


def r_family(mir, name, mode, n, p, extra, seed, to, short=False):
    """prefix length p, suffix length n + LAG + extra (short: one less than needed -> must be able to differ)"""
    L = n + LAG[name] + extra - (1 if short else 0)
    pre = make_stream(mode, p, 'p'); suf = make_stream(mode, L, 's')
    mult = z3.Real('mult') if IND[name]['mult'] else None
    ops = [('new', 'a', name, (n,), mult)] + [('feed', 'a', v) for v in pre + suf] + \
          [('new', 'b', name, (n,), mult)] + [('feed', 'b', v) for v in suf]
    kind = 'validbar' if mode == 'bar' else ('positive' if name in ('ROC', 'ER') else 'any')
    if name in ('ROC', 'ER'):
        # the prefix may contain exact zeros (a zero reference price makes an intermediate output inf/NaN, which is not what is compared);
        # the suffix that determines the compared output is positive
        assume = stream_assumptions(suf, 'positive') + rcore.bounds(pre) + [x >= 0 for x in pre]
    else:
        assume = stream_assumptions(pre + suf, kind)
    assume += ([mult >= 0, mult <= 1000] if mult is not None else [])
    fam = 'R:C17 %s %s n=%d prefix=%d suffix=%d%s' % (name, mode, n, p, L, ' (too short: must be able to differ)' if short else '')
    b = dict(engine='R', indicator=name, input=mode, n=n, prefix=p, suffix=L, inputs=kind + ', prefix magnitudes unconstrained up to 1e12 (spikes included)')
    if not short:
        return run_family(mir, fam, ops, assume, obligations, seed, to, bounds=b, witness=None)
    # witness twin: with a suffix one too short the outputs must be able to differ
    from vlib.mirsym import Executor, Unsupported, PathDead
    ex = Executor(mir)
    try:
        outs, _ = rfam.run_ops_r(ex, ops)
    except (Unsupported, PathDead) as e:
        return fam_result(fam, 'R', 'undecided', detail='R cannot encode: %r' % (e,), bounds=b)
    obs = obligations(ops, outs)
    st = rcore.Stats()
    alive = rcore.witness_sat(st, assume + ex.defs, O.or_(*[o.bad for o in obs]), rfam.ops_vars(ops), (), seed)
    return fam_result(fam, 'R', 'ok' if alive else 'undecided', bounds=b, obligations=1, discharged=1 if alive else 0, symbolic_inputs=len(rfam.ops_vars(ops)),
                      witness='alive' if alive else 'dead', stats=st.as_dict(), detail='' if alive else 'outputs cannot differ even with a too-short suffix: vacuous?',
                      functions=sorted(ex.called), lib_models=sorted(ex.lib_called))


def main(chk):
    from vlib import mirsym, native
    mir = mirsym.dump_mir()
    native.build(); native.build('release')
    q = chk.tier == 'quick'
    ns = (1, 2, 3, 4) if q else (1, 2, 3, 4, 5)
    to = 90 if q else 300
    jobs = []
    for name in LAG:
        mode = 'bar' if name in ('CCI', 'MFI') else 'scalar'
        for n in ns:
            for p in ((1, n + 2) if q else (1, 2, n + 1, n + 3)):
                for extra in ((0, 1) if q else (0, 1, 2)):
                    jobs.append((r_family, (mir, name, mode, n, p, extra, chk.seed, to), {}))
            if n >= 2: jobs.append((r_family, (mir, name, mode, n, 2, 0, chk.seed, to), {'short': True}))
        if name == 'FAST_STOCH':
            for n in ns[:3]: jobs.append((r_family, (mir, name, 'bar', n, n + 1, 0, chk.seed, to), {}))
    chk.add(run_jobs(jobs))
    hs = []
    for nm in ('MIN', 'MAX', 'FAST_STOCH'):
        for n in ((1, 2, 3) if q else (1, 2, 3, 4)):
            if nm == 'FAST_STOCH' and n > 1: continue        # the division does not finish in CBMC; its extremes are Minimum/Maximum
            for p in (range(1, n + 2) if q else range(1, n + 3)):
                hs.append(k_forget(nm, n, p))
    chk.add(kani.run_family_set('C17', hs, jobs=12, timeout_s=300 if q else 1800))
    chk.assumptions += ['f64 arithmetic modelled as exact real arithmetic in engine R: equality is exact there; the tolerance applies to native confirmation only',
                        'prefix values unconstrained (|x| <= 1e12): an outlier 1e6 times larger than the suffix is the general case']
    chk.notes += ['prefixes longer than n+3 (covered for all lengths only together with the C13 inductive step)', 'floating-point residue of a spike (C13 / Kani part)']


# ------------------------------------------------------------------------------------------------ engine K
from vlib import kani, native
from vlib.kani import KB, KOps


def k_forget(name, n, p):
    """prefix of ANY f64 (NaN, inf included), then n finite inputs: output == fresh instance fed the finite suffix"""
    b = KB('c17_forget_%s_n%d_p%d' % (name.lower(), n, p), unwind=n + 3,
           family='K:C17 %s n=%d: arbitrary-f64 prefix (%d values, NaN/inf included), finite suffix of %d -> exactly the fresh instance\'s output' % (name, n, p, n),
           bounds=dict(engine='K', indicator=name, n=n, prefix='%d values, every f64 bit pattern' % p, suffix='%d values, every finite f64' % n))
    k = KOps(b)
    k.new('a', name, [n]); k.new('f', name, [n])
    for i in range(p): k.feed('a', 'scalar', 'any', 'p%d' % i)
    oa = of = None
    for i in range(n):
        v = b.anyf('s%d' % i, finite=True)
        pol = ('var', v, ('sym', 's%d' % i))
        oa = k.feed('a', 'scalar', pol); of = k.feed('f', 'scalar', pol)
    b.emit('assert!(same(%s, %s), "history older than the window still influences the output");' % (oa, of))

    def confirm(vals):
        ops = k.concrete(vals)
        for prof in ('dev', 'release'):
            lines, outs = kani.native_ops(ops, prof)
            xa = [o for op, o in zip(ops, outs) if op[0] == 'feed' and op[1] == 'a'][-1]
            xf = [o for op, o in zip(ops, outs) if op[0] == 'feed' and op[1] == 'f'][-1]
            if xa == 'panic' or xf == 'panic' or not all(kani.same_f(p_, q_) for p_, q_ in zip(xa, xf)):
                return True, lines, '%s(%d) after the prefix returns %r, a fresh instance fed the last %d inputs returns %r (%s)' % (name, n, xa, n, xf, prof)
        return False, lines, 'native outputs agree'
    b.confirm = confirm
    return b
