"""Reference ("from scratch") formulas of the properties, written once over generic numbers:
they evaluate on python Fractions (exact oracle for native replay) and on z3 Real terms (solver
queries) alike.  Nothing here looks at the implementation."""
from fractions import Fraction
import z3
from .mirsym import is_sym, R, conc

F = Fraction


def sym(*vs):
    return any(is_sym(v) for v in vs)


def ite(c, a, b):
    c = conc(c) if is_sym(c) else c
    if is_sym(c):
        return z3.If(c, R(a), R(b))
    return a if c else b


def absv(x):
    return ite(x >= 0, x, -x)


def maxv(a, b):
    return ite(a >= b, a, b)


def minv(a, b):
    return ite(a <= b, a, b)


def and_(*cs):
    cs = [conc(c) if is_sym(c) else c for c in cs]
    if any(is_sym(c) for c in cs):
        return z3.And(*[c if is_sym(c) else z3.BoolVal(bool(c)) for c in cs])
    return all(cs)


def or_(*cs):
    cs = [conc(c) if is_sym(c) else c for c in cs]
    if any(is_sym(c) for c in cs):
        return z3.Or(*[c if is_sym(c) else z3.BoolVal(bool(c)) for c in cs])
    return any(cs)


def not_(c):
    if is_sym(c): return z3.Not(c)
    return not c


def eq(a, b):
    if sym(a, b):
        if isinstance(a, bool) or isinstance(b, bool) or (is_sym(a) and z3.is_bool(a)) or (is_sym(b) and z3.is_bool(b)):
            from .mirsym import to_z3
            return to_z3(a) == to_z3(b)
        return R(a) == R(b)
    return a == b


def fold(f, xs):
    r = xs[0]
    for x in xs[1:]: r = f(r, x)
    return r


def total(xs):
    r = F(0)
    for x in xs: r = r + x
    return r


def window(xs, i, n):
    """last min(i+1, n) inputs up to and including index i"""
    return xs[max(0, i - n + 1):i + 1]


def tau(t):
    return F(1, 10 ** 12) + F(1, 10 ** 15) * F(int(round(t ** 1.5 * 10 ** 6)), 10 ** 6)


# ------------------------------------------------------------------ C01 window statistics
def mean(w):
    return total(w) / len(w)


def wma(w):
    k = len(w)
    return total([(j + 1) * w[j] for j in range(k)]) / F(k * (k + 1), 2)


def pvar(w):
    m = mean(w)
    return total([(x - m) * (x - m) for x in w]) / len(w)


def mad(w):
    m = mean(w)
    return total([absv(x - m) for x in w]) / len(w)


def wmin(w):
    return fold(minv, w)


def wmax(w):
    return fold(maxv, w)


# ------------------------------------------------------------------ C02 EMA family
def ema_series(xs, alpha):
    """closed form: first input unchanged, then weighted sums (independent of the recursion's shape)"""
    out = []
    for t in range(len(xs)):
        acc = F(0)
        w = F(1)                                   # (1-alpha)^j
        for j in range(t):                         # j = 0 .. t-1 : alpha (1-alpha)^j x_{t-j}
            acc = acc + alpha * w * xs[t - j]
            w = w * (1 - alpha)
        acc = acc + w * xs[0]                      # (1-alpha)^t x_0
        out.append(acc)
    return out


def ema_rec(xs, alpha):
    out = []
    cur = None
    for x in xs:
        cur = x if cur is None else alpha * x + (1 - alpha) * cur
        out.append(cur)
    return out


def alpha_of(period):
    if is_sym(period): return 2 / (z3.ToReal(period) + 1)
    return F(2, period + 1)


def true_range_bars(bars):
    """bars: (o,h,l,c,v)"""
    out = []
    prev = None
    for (o, h, l, c, v) in bars:
        if prev is None: out.append(h - l)
        else: out.append(maxv(maxv(h - l, absv(h - prev)), absv(l - prev)))
        prev = c
    return out


def true_range_scalar(xs):
    out, prev = [], None
    for x in xs:
        out.append(F(0) if prev is None else absv(x - prev))
        prev = x
    return out


def typical(b):
    return (b[3] + b[1] + b[2]) / 3


# ------------------------------------------------------------------ C03 oscillators
def rsi_series(xs, alpha):
    ups, downs, prev = [], [], None
    for x in xs:
        if prev is None:
            ups.append(F(0.1)); downs.append(F(0.1))      # the f64 nearest to 0.1
        else:
            ups.append(ite(x > prev, x - prev, F(0)))
            downs.append(ite(x > prev, F(0), prev - x))
        prev = x
    U, D = ema_series(ups, alpha), ema_series(downs, alpha)
    return [(100 * u, u + d) for u, d in zip(U, D)]      # (numerator, denominator)


def fast_stoch_scalar(xs, n):
    out = []
    for i in range(len(xs)):
        w = window(xs, i, n)
        lo, hi = wmin(w), wmax(w)
        out.append((xs[i] - lo, hi - lo))              # (num, den) ; value = 100*num/den, 50 if den == 0
    return out


def fast_stoch_bars(bars, n):
    out = []
    for i in range(len(bars)):
        w = window(bars, i, n)
        lo, hi = wmin([b[2] for b in w]), wmax([b[1] for b in w])
        out.append((bars[i][3] - lo, hi - lo))
    return out


def roc_series(xs, n):
    out = []
    for i, x in enumerate(xs):
        prev = xs[i - n] if i >= n else xs[0]
        out.append((100 * (x - prev), prev))
    return out


def er_series(xs, n):
    """(num, den); first output defined as 1 (num = den)"""
    out = []
    for i, x in enumerate(xs):
        if i == 0:
            out.append((F(1), F(1))); continue
        j = max(0, i - n)
        vol = total([absv(xs[k + 1] - xs[k]) for k in range(j, i)])
        out.append((absv(x - xs[j]), vol))
    return out


def mfi_series(bars, n):
    """(num, den) over the last n typical-price moves; first output 50"""
    tps = [typical(b) for b in bars]
    out = []
    for i in range(len(bars)):
        if i == 0:
            out.append((F(50), F(1))); continue
        pos, neg = F(0), F(0)
        for k in range(max(1, i - n + 1), i + 1):
            flow = tps[k] * bars[k][4]
            pos = pos + ite(tps[k] > tps[k - 1], flow, F(0))
            neg = neg + ite(tps[k] < tps[k - 1], flow, F(0))
        out.append((100 * pos, pos + neg))
    return out


def obv_series(bars):
    out, prev, acc = [], F(0), F(0)
    for b in bars:
        c, v = b[3], b[4]
        acc = acc + ite(c > prev, v, ite(c < prev, -v, F(0)))
        prev = c
        out.append(acc)
    return out


def cci_series(bars, n):
    """(num, den): value = num/den, 0 when MAD == 0"""
    tps = [typical(b) for b in bars]
    out = []
    for i in range(len(bars)):
        w = window(tps, i, n)
        out.append((tps[i] - mean(w), F(0.015) * mad(w), mad(w)))     # the f64 nearest to 0.015
    return out
