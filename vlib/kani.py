"""Engine K: Kani 0.68 / CBMC 6.11 proof harnesses over the compiled crate (external crate, path
dependency on /repo, no source hooks).  Harness source is generated per run; every failing harness
is re-run with concrete playback, decoded, and replayed natively before anything is reported."""
import os, re, shutil, subprocess, time, struct, math
from .inds import IND
from .framework import fam_result, WORK, VERIF
from . import native

PRELUDE = r'''
use ta::indicators::*;
use ta::{Next, Reset, Period, DataItem, Open, High, Low, Close, Volume};
use ta::errors::TaError;
use tok::{to_tok, from_tok, Tok};

#[derive(Clone, Copy)]
pub struct B { pub o: f64, pub h: f64, pub l: f64, pub c: f64, pub v: f64 }
impl Open for B { fn open(&self) -> f64 { self.o } }
impl High for B { fn high(&self) -> f64 { self.h } }
impl Low for B { fn low(&self) -> f64 { self.l } }
impl Close for B { fn close(&self) -> f64 { self.c } }
impl Volume for B { fn volume(&self) -> f64 { self.v } }

pub trait OB { fn ob(&self) -> [u64; 3]; }
impl OB for f64 { fn ob(&self) -> [u64; 3] { [self.to_bits(), 0, 0] } }
impl OB for BollingerBandsOutput { fn ob(&self) -> [u64; 3] { [self.average.to_bits(), self.upper.to_bits(), self.lower.to_bits()] } }
impl OB for KeltnerChannelOutput { fn ob(&self) -> [u64; 3] { [self.average.to_bits(), self.upper.to_bits(), self.lower.to_bits()] } }
impl OB for MovingAverageConvergenceDivergenceOutput { fn ob(&self) -> [u64; 3] { [self.macd.to_bits(), self.signal.to_bits(), self.histogram.to_bits()] } }
impl OB for PercentagePriceOscillatorOutput { fn ob(&self) -> [u64; 3] { [self.ppo.to_bits(), self.signal.to_bits(), self.histogram.to_bits()] } }
impl OB for ChandelierExitOutput { fn ob(&self) -> [u64; 3] { [self.long.to_bits(), self.short.to_bits(), 0] } }

/// equal as bit patterns, except that any NaN equals any NaN and -0.0 equals 0.0
pub fn same(a: [u64; 3], b: [u64; 3]) -> bool {
    let mut ok = true;
    let mut i = 0;
    while i < 3 {
        let (x, y) = (f64::from_bits(a[i]), f64::from_bits(b[i]));
        if !(a[i] == b[i] || (x != x && y != y) || (x == 0.0 && y == 0.0)) { ok = false; }
        i += 1;
    }
    ok
}

#[cfg(kani)]
pub fn anyf() -> f64 { f64::from_bits(kani::any::<u64>()) }
#[cfg(kani)]
pub fn anyfin() -> f64 { let x = anyf(); kani::assume(x.is_finite()); x }

/// over-approximating stand-in for f64::sqrt used where the property does not depend on the root's value
#[cfg(kani)]
pub fn sqrt_stub(x: f64) -> f64 { let r: f64 = anyf(); kani::assume(!(x >= 0.0) || r >= 0.0); r }

/// stand-in for <ExponentialMovingAverage as Next<f64>>::next in harnesses about a composite's own control flow:
/// returns an arbitrary f64 (the EMA's own totality/values are decided by its own harnesses)
#[cfg(kani)]
pub fn ema_next_stub(_s: &mut ExponentialMovingAverage, _x: f64) -> f64 { anyf() }

#[cfg(kani)]
mod h {
    use super::*;
'''

CTOR = {
    'SMA': 'SimpleMovingAverage::new({0})', 'EMA': 'ExponentialMovingAverage::new({0})', 'WMA': 'WeightedMovingAverage::new({0})',
    'SD': 'StandardDeviation::new({0})', 'MAD': 'MeanAbsoluteDeviation::new({0})', 'RSI': 'RelativeStrengthIndex::new({0})',
    'MIN': 'Minimum::new({0})', 'MAX': 'Maximum::new({0})', 'FAST_STOCH': 'FastStochastic::new({0})',
    'SLOW_STOCH': 'SlowStochastic::new({0}, {1})', 'TRUE_RANGE': 'TrueRange::new()', 'ATR': 'AverageTrueRange::new({0})',
    'MACD': 'MovingAverageConvergenceDivergence::new({0}, {1}, {2})', 'PPO': 'PercentagePriceOscillator::new({0}, {1}, {2})',
    'CCI': 'CommodityChannelIndex::new({0})', 'ER': 'EfficiencyRatio::new({0})', 'BB': 'BollingerBands::new({0}, {m})',
    'CE': 'ChandelierExit::new({0}, {m})', 'KC': 'KeltnerChannel::new({0}, {m})', 'ROC': 'RateOfChange::new({0})',
    'MFI': 'MoneyFlowIndex::new({0})', 'OBV': 'OnBalanceVolume::new()',
}
INFALLIBLE = ('TRUE_RANGE', 'OBV')


def ctor(name, periods=(), mult='2.0', unwrap=True):
    e = CTOR[name].format(*[str(p) for p in periods], m=mult)
    if unwrap and name not in INFALLIBLE: e += '.unwrap()'
    return e


def tyname(name):
    return IND[name]['ty']


class KB:
    """builds the body of one harness and remembers the order of nondeterministic draws"""

    def __init__(s, name, unwind=None, family=None, bounds=None, required=True, solver=None, stub_sqrt=False, stub_ema=False):
        s.stub_sqrt = stub_sqrt or stub_ema
        s.stub_ema = stub_ema
        s.name, s.unwind, s.family, s.bounds, s.required = name, unwind, family or name, bounds, required
        s.lines, s.draws, s.k = [], [], 0
        s.confirm = None            # callable(values: dict tag -> value) -> (bad: bool, replay lines, detail)
        s.sample = None
        s.solver = solver

    def emit(s, code):
        s.lines.append(code)

    def stub_draws(s, name):
        """the stubs draw nondeterministic values too: keep the playback decoding aligned"""
        n = (1 if (s.stub_sqrt and name in ('SD', 'BB')) else 0) + (1 if (s.stub_ema and name in ('CE', 'SLOW_STOCH')) else 0)
        for _ in range(n):
            s.k += 1
            s.draws.append(('f64', '_stub%d' % s.k))

    def _v(s):
        s.k += 1
        return 'v%d' % s.k

    def anyf(s, tag, finite=False, cond=None):
        v = s._v()
        s.emit('let %s = %s;' % (v, 'anyfin()' if finite else 'anyf()'))
        if cond: s.emit('kani::assume(%s);' % cond.format(v=v))
        s.draws.append(('f64', tag))
        return v

    def anyusize(s, tag, lo=None, hi=None):
        v = s._v()
        s.emit('let %s: usize = kani::any();' % v)
        if lo is not None: s.emit('kani::assume(%s >= %d);' % (v, lo))
        if hi is not None: s.emit('kani::assume(%s <= %d);' % (v, hi))
        s.draws.append(('usize', tag))
        return v

    def anyu8(s, tag, below):
        v = s._v()
        s.emit('let %s: u8 = kani::any(); kani::assume(%s < %d);' % (v, v, below))
        s.draws.append(('u8', tag))
        return v

    def anybool(s, tag):
        v = s._v()
        s.emit('let %s: bool = kani::any();' % v)
        s.draws.append(('bool', tag))
        return v

    def pick(s, tag, table):
        """a value chosen by a symbolic index from a small table of f64 literals"""
        i = s.anyu8(tag, len(table))
        v = s._v()
        arms = ' '.join('%d => %s,' % (k, lit(x)) for k, x in enumerate(table[:-1]))
        s.emit('let %s: f64 = match %s { %s _ => %s };' % (v, i, arms, lit(table[-1])))
        return v

    def anybar(s, tag, finite=False):
        vs = [s.anyf('%s.%s' % (tag, f), finite) for f in 'ohlcv']
        v = s._v()
        s.emit('let %s = B { o: %s, h: %s, l: %s, c: %s, v: %s };' % ((v,) + tuple(vs)))
        return v

    def source(s):
        attrs = '    #[kani::proof]\n'
        if s.unwind: attrs += '    #[kani::unwind(%d)]\n' % s.unwind
        if s.solver: attrs += '    #[kani::solver(%s)]\n' % s.solver
        if s.stub_sqrt: attrs += '    #[kani::stub(f64::sqrt, sqrt_stub)]\n'
        if s.stub_ema: attrs += '    #[kani::stub(<ExponentialMovingAverage as Next<f64>>::next, ema_next_stub)]\n'
        body = '\n'.join('        ' + l for l in s.lines)
        return '%s    fn %s() {\n%s\n        kani::cover!(true);\n    }\n' % (attrs, s.name, body)


def lit(x):
    if isinstance(x, str): return x
    if x != x: return 'f64::NAN'
    if x == math.inf: return 'f64::INFINITY'
    if x == -math.inf: return 'f64::NEG_INFINITY'
    return 'f64::from_bits(0x%016x)' % struct.unpack('<Q', struct.pack('<d', float(x)))[0]


def decode(draws, vecs):
    vals = {}
    for (kind, tag) in draws:              # draws after the failing point are not in the playback: any value will do
        vals[tag] = '0x3ff8000000000000' if kind == 'f64' else (False if kind == 'bool' else 0)
    for (kind, tag), bs in zip(draws, vecs):
        n = int.from_bytes(bytes(bs), 'little')
        if kind == 'f64': vals[tag] = '0x%016x' % n
        elif kind == 'bool': vals[tag] = bool(n & 1)
        else: vals[tag] = n
    return vals


def hexf(h):
    return struct.unpack('<d', struct.pack('<Q', int(h, 16)))[0]


def project_dir(prop):
    return os.path.join(WORK, 'kani_' + prop)


def write_project(prop, harnesses):
    d = project_dir(prop)
    os.makedirs(os.path.join(d, 'src'), exist_ok=True)
    os.makedirs(os.path.join(d, '.cargo'), exist_ok=True)
    with open(os.path.join(d, 'Cargo.toml'), 'w') as f:
        f.write('[package]\nname = "ta_kani"\nversion = "0.1.0"\nedition = "2021"\n\n[workspace]\n\n[dependencies]\n'
                'ta = { path = "/repo", features = ["serde"] }\nbincode = "1.3.1"\nserde = { version = "1.0", features = ["derive"] }\n\n'
                "[lints.rust]\nunexpected_cfgs = { level = \"allow\", check-cfg = ['cfg(kani)'] }\n")
    with open(os.path.join(d, '.cargo', 'config.toml'), 'w') as f:
        f.write('[net]\noffline = true\n')
    lock = os.path.join(VERIF, 'replay', 'Cargo.lock') if os.path.exists(os.path.join(VERIF, 'replay', 'Cargo.lock')) else '/repo/Cargo.lock'
    shutil.copy(lock, os.path.join(d, 'Cargo.lock'))
    src = '#![allow(unused, non_snake_case, clippy::all)]\n' + open(os.path.join(VERIF, 'kani', 'tokser.rs')).read() + PRELUDE + '\n'.join(h.source() for h in harnesses) + '}\n'
    p = os.path.join(d, 'src', 'lib.rs')
    old = open(p).read() if os.path.exists(p) else None
    if old != src:
        with open(p, 'w') as f: f.write(src)
    return d


def _kani_cmd(d, extra):
    return ['cargo', 'kani', '--no-overflow-checks', '--output-format', 'terse', '--target-dir', os.path.join(d, 'target')] + extra


def run_kani(prop, harnesses, jobs=12, timeout_s=120, extra_args=(), cbmc_args=()):
    """-> dict name -> {'status': 'ok'|'failed'|'timeout'|'error', 'checks': [...], 'time': s, 'cover': bool}"""
    d = write_project(prop, harnesses)
    env = dict(os.environ, CARGO_NET_OFFLINE='true')
    args = ['-j', str(jobs), '-Z', 'unstable-options', '--harness-timeout', '%ds' % timeout_s, '--exact'] + list(extra_args)
    if any(h.stub_sqrt for h in harnesses): args += ['-Z', 'stubbing']
    for h in harnesses: args += ['--harness', 'h::' + h.name]
    if cbmc_args: args += ['--cbmc-args'] + list(cbmc_args)
    t0 = time.time()
    p = subprocess.run(_kani_cmd(d, args), cwd=d, env=env, capture_output=True, text=True)
    out = p.stdout + '\n' + p.stderr
    with open(os.path.join(d, 'last_run.log'), 'w') as f: f.write(out)
    res = parse_output(out, [h.name for h in harnesses])
    res['__wall__'] = time.time() - t0
    res['__build_failed__'] = ('error: could not compile' in out or 'error[E' in out) and not any(v['status'] == 'ok' for k, v in res.items() if isinstance(v, dict))
    res['__log__'] = out[-3000:]
    return res


def parse_output(out, names):
    res = {}
    cur = {}                   # thread -> harness name
    block = {}                 # thread -> list of lines
    def finish(th):
        name, lines = cur.get(th), block.get(th, [])
        if not name: return
        txt = '\n'.join(lines)
        st = 'error'
        if 'VERIFICATION:- SUCCESSFUL' in txt: st = 'ok'
        elif 'VERIFICATION:- FAILED' in txt: st = 'failed'
        if 'CBMC timed out' in txt: st = 'timeout'
        checks = re.findall(r'Failed Checks: (.*)', txt)
        m = re.search(r'Verification Time: ([\d.]+)s', txt)
        cov = re.search(r'\*\* (\d+) of (\d+) cover properties satisfied', txt)
        res[name] = {'status': st, 'checks': checks, 'time': float(m.group(1)) if m else None,
                     'cover': bool(cov and cov.group(1) == cov.group(2)), 'raw': txt[-1500:]}
    th = '0'
    for line in out.split('\n'):
        m = re.match(r'(?:Thread (\d+): )?Checking harness (?:h::)?([\w:]+)\.\.\.', line)
        if m:
            th = m.group(1) or '0'
            finish(th) if False else None
            cur[th] = m.group(2).split('::')[-1]; block[th] = []
            continue
        m = re.match(r'Thread (\d+): ?(.*)', line)
        if m:
            th = m.group(1)
            block.setdefault(th, []).append(m.group(2))
            continue
        block.setdefault(th, []).append(line)
        if line.startswith('Verification Time') or 'Verification Time:' in line or 'CBMC timed out' in line:
            finish(th); cur[th] = None
    for n in names:
        if n not in res:
            # timeouts are reported in the summary
            if re.search(r'(timed out|Timeout).*' + re.escape(n), out) or re.search(re.escape(n) + r'.*(timed out|timeout)', out, re.I):
                res[n] = {'status': 'timeout', 'checks': [], 'time': None, 'cover': False, 'raw': ''}
            else:
                res[n] = {'status': 'error', 'checks': [], 'time': None, 'cover': False, 'raw': 'no result block found'}
    return res


def playback(prop, h, timeout_s=300):
    """re-run one failing harness with concrete playback; -> list of byte vectors of the first failing assertion"""
    d = project_dir(prop)
    env = dict(os.environ, CARGO_NET_OFFLINE='true')
    args = ['-Z', 'concrete-playback', '--concrete-playback=print', '--exact', '--harness', 'h::' + h.name]
    if h.stub_sqrt: args += ['-Z', 'stubbing']
    try:
        p = subprocess.run(_kani_cmd(d, args), cwd=d, env=env, capture_output=True, text=True, timeout=timeout_s)
    except subprocess.TimeoutExpired:
        return None, 'playback timed out'
    out = p.stdout
    tests = re.findall(r'/// Check for `(\w+)`: (.*?)\n.*?let concrete_vals: Vec<Vec<u8>> = vec!\[(.*?)\];', out, re.S)
    for kind, what, body in tests:
        if kind == 'cover': continue
        vecs = [[int(x) for x in v.split(',') if x.strip()] for v in re.findall(r'vec!\[([\d, ]*)\]', body)]
        return vecs, what.strip()
    return None, 'no playback test produced'


def run_family_set(prop, harnesses, jobs=12, timeout_s=120, cbmc_args=(), stats=None, max_playbacks=4):
    """run harnesses, confirm failures natively; -> list of family results"""
    t0 = time.time()
    seen, uniq = set(), []
    for h in harnesses:                      # the same harness may be requested twice (floor and ceiling lists overlap)
        if h.name not in seen:
            seen.add(h.name); uniq.append(h)
    harnesses = uniq
    res = run_kani(prop, harnesses, jobs, timeout_s, cbmc_args=cbmc_args)
    out = []
    if res.get('__build_failed__'):
        return [fam_result('K:%s build' % prop, 'K', 'undecided', detail='harness crate does not build against /repo: ' + res['__log__'][-1200:])]
    failing = [h for h in harnesses if res[h.name]['status'] == 'failed' and 'unwinding assertion' not in '; '.join(res[h.name]['checks'])]
    failing.sort(key=lambda h: res[h.name]['time'] or 1e9)
    to_play = failing[:max_playbacks]
    played = {}
    if to_play:
        from concurrent.futures import ThreadPoolExecutor
        with ThreadPoolExecutor(max_workers=3) as pool:
            for h, pb in zip(to_play, pool.map(lambda hh: playback(prop, hh), to_play)):
                played[h.name] = pb
    for h in harnesses:
        r = res[h.name]
        base = dict(bounds=h.bounds, obligations=1, discharged=0, symbolic_inputs=len(h.draws), required=h.required,
                    stats={'cbmc_s': r['time'] or 0.0, 'kani_harnesses': 1}, wall_s=r['time'],
                    sample=h.sample or {'harness': h.name, 'draws': [t for _, t in h.draws][:8]})
        if r['status'] == 'ok':
            if not r['cover']:
                out.append(fam_result(h.family, 'K', 'undecided', detail='harness passed but its reachability witness (kani::cover) was not satisfied: vacuous', witness='dead', **base))
            else:
                base['discharged'] = 1
                out.append(fam_result(h.family, 'K', 'ok', witness='n/a-cover', **base))
            continue
        if r['status'] in ('timeout', 'error'):
            out.append(fam_result(h.family, 'K', 'undecided', detail='kani %s: %s' % (r['status'], r['raw'][-300:]), **base))
            continue
        checks = '; '.join(r['checks'])
        if 'unwinding assertion' in checks:
            out.append(fam_result(h.family, 'K', 'undecided', detail='unwinding assertion failed (bound too small for this code): ' + checks, **base))
            continue
        if h.name not in played:
            out.append(fam_result(h.family, 'K', 'undecided', detail='kani reports failed checks [%s]; counterexample not extracted (only the %d cheapest failing harnesses are replayed)' % (checks, max_playbacks), **base))
            continue
        vecs, what = played[h.name]
        if vecs is None or h.confirm is None:
            out.append(fam_result(h.family, 'K', 'undecided', detail='kani reports failed checks [%s] but no counterexample could be extracted/confirmed (%s)' % (checks, what), **base))
            continue
        vals = decode(h.draws, vecs)
        try:
            bad, lines, detail = h.confirm(vals)
        except Exception as e:
            bad, lines, detail = False, [], 'confirmation raised %r' % (e,)
        if bad:
            out.append(fam_result(h.family, 'K', 'violation', detail='kani: %s; native: %s' % (checks, detail), replay=lines, **base))
        else:
            out.append(fam_result(h.family, 'K', 'undecided', detail='kani counterexample [%s] did not reproduce natively (%s); values=%r' % (checks, detail, vals), **base))
    return out


# ------------------------------------------------------------------------------------------------
# Operation scripts for harnesses: the same ops drive the generated Rust and the native replay.
class KOps:
    """emit an op script into a harness; every feed's output is kept as a [u64; 3] variable"""

    def __init__(s, b):
        s.b, s.ops, s.outs, s.n = b, [], [], 0
        s.tables = {}

    def new(s, slot, name, periods=(), mult='2.5'):
        s.names = getattr(s, 'names', {}); s.names[slot] = name
        s.b.emit('let mut %s = %s;' % (slot, ctor(name, periods, mult)))
        s.ops.append(('new', slot, name, tuple(periods), float(mult) if IND[name]['mult'] else None))
        s.outs.append(None)

    def _val(s, tag, policy):
        if policy == 'any': return s.b.anyf(tag), ('sym', tag)
        if policy == 'finite': return s.b.anyf(tag, finite=True), ('sym', tag)
        if isinstance(policy, tuple) and policy[0] == 'pick':
            s.tables[tag] = policy[1]
            return s.b.pick(tag, policy[1]), ('pick', tag)
        if isinstance(policy, tuple) and policy[0] == 'lit':
            return lit(policy[1]), ('lit', policy[1])
        if isinstance(policy, tuple) and policy[0] == 'var':      # reuse an already drawn rust variable
            return policy[1], policy[2]
        raise ValueError(policy)

    def feed(s, slot, mode, policy, tag=None):
        """policy: one policy for a scalar, or a 5-tuple of policies (o,h,l,c,v) / a single policy applied to all five for bars"""
        s.n += 1
        tag = tag or 'i%d' % s.n
        ov = 'o%d' % s.n
        if mode == 'scalar':
            v, d = s._val(tag, policy)
            s.b.emit('let %s = %s.next(%s).ob();' % (ov, slot, v))
            s.ops.append(('feed', slot, (d,)))
        else:
            pols = policy if (isinstance(policy, (list, tuple)) and len(policy) == 5 and not (isinstance(policy, tuple) and policy and policy[0] in ('pick', 'lit', 'var'))) else [policy] * 5
            vs, ds = [], []
            for f, pol in zip('ohlcv', pols):
                v, d = s._val('%s.%s' % (tag, f), pol); vs.append(v); ds.append(d)
            s.b.emit('let %s = %s.next(&B { o: %s, h: %s, l: %s, c: %s, v: %s }).ob();' % ((ov, slot) + tuple(vs)))
            s.ops.append(('feed', slot, tuple(ds)))
        s.outs.append(ov)
        s.b.stub_draws(getattr(s, 'names', {}).get(slot, ''))
        return ov

    def reset(s, slot):
        s.b.emit('%s.reset();' % slot); s.ops.append(('reset', slot)); s.outs.append(None)

    def clone(s, src, dst):
        s.names = getattr(s, 'names', {}); s.names[dst] = s.names.get(src, '')
        s.b.emit('let mut %s = %s.clone();' % (dst, src)); s.ops.append(('clone', src, dst)); s.outs.append(None)

    def serde(s, src, dst, name):
        s.b.emit('let mut %s: %s = bincode::deserialize(&bincode::serialize(&%s).unwrap()).unwrap();' % (dst, tyname(name), src))
        s.ops.append(('serde', src, dst)); s.outs.append(None)

    def concrete(s, vals):
        """ops with hex-bit-pattern values, for the native replay"""
        out = []
        for op in s.ops:
            if op[0] != 'feed':
                out.append(op); continue
            vs = []
            for d in op[2]:
                if d[0] == 'sym': vs.append(vals[d[1]])
                elif d[0] == 'pick': vs.append(native.f2hex(s.tables[d[1]][vals[d[1]]]) if not isinstance(s.tables[d[1]][vals[d[1]]], str) else s.tables[d[1]][vals[d[1]]])
                else: vs.append(native.f2hex(d[1]) if not isinstance(d[1], str) else d[1])
            out.append(('feed', op[1], tuple(vs) if len(vs) > 1 else vs[0]))
        return out


def native_ops(ops, profile='dev'):
    """run concrete ops (incl. 'serde') natively -> (lines, outs aligned with ops)"""
    from . import rfam
    lines = []
    for op in ops:
        if op[0] == 'serde': lines.append('serde %s %s' % (op[1], op[2]))
        else: lines += rfam.ops_lines([op])
    rep = native.run_script(lines, profile)
    outs = []
    for op, r in zip(ops, rep):
        if op[0] == 'feed': outs.append(r[1] if r[0] == 'out' else r[0])
        elif r[0] in ('panic', 'err'): outs.append(r[0])
        else: outs.append(None)
    return lines, outs


def same_f(a, b):
    """python twin of the harness' same(): NaN == NaN, -0.0 == 0.0, else bit equality (here: float equality)"""
    return (a != a and b != b) or a == b
