"""Generic query-family machinery of engine R: obligations written once over generic numbers
(z3 terms for the solver, Fractions for the native confirmation), discharge, replay, witnesses."""
import random, time
from fractions import Fraction
import z3
from .mirsym import Executor, Unsupported, PathDead, is_sym, R, conc, to_z3
from .inds import IND, RInst
from . import oracles as O, rcore, native
from .framework import fam_result

F = Fraction


class Ob:
    """one obligation: `bad` = exact violation condition, `bad_tol` = violation beyond the property's
    tolerance (both bool or z3 Bool)."""
    __slots__ = ('label', 'bad', 'bad_tol', 'step')

    def __init__(s, label, bad, bad_tol=None, step=None):
        s.label, s.bad, s.bad_tol, s.step = label, bad, (bad if bad_tol is None else bad_tol), step


def ob_eq(label, impl, ref, scale, tol, guard=True, square=False, step=None):
    """impl == ref, within tol * max|scale| (squared magnitudes if square)"""
    d = impl - ref
    ad = O.absv(d)
    sc = [(s * s if square else O.absv(s)) for s in scale]
    bad = O.and_(guard, O.not_(O.eq(impl, ref)))
    bad_tol = O.and_(guard, *[ad > tol * s for s in sc]) if sc else O.and_(guard, ad > tol)
    return Ob(label, bad, bad_tol, step)


def ob_ratio(label, impl, num, den, maxmag, tol_scale, t, cmax=F(10) ** 6, guard=True, step=None):
    """impl == num/den wherever den != 0 and the condition number c = maxmag/|den| <= cmax;
    tolerance tau(t) * c * tol_scale"""
    aden = O.absv(den)
    nz = O.not_(O.eq(den, F(0)))
    if O.sym(impl, num, den):
        ref = R(num) / R(den)
        bad = O.and_(guard, nz, O.not_(O.eq(impl, ref)))
        # |impl*den - num| > tau * maxmag * scale   (multiplied through by |den|)
        lhs = O.absv(R(impl) * R(den) - R(num))
        bad_tol = O.and_(guard, nz, *[O.and_(O.absv(m) <= cmax * aden, lhs > O.tau(t) * O.absv(m) * tol_scale) for m in maxmag])
        # the conjunction over m is exact for "max": both clauses are monotone in |m| in opposite directions, so use the max explicitly instead
        mm = O.fold(O.maxv, [O.absv(m) for m in maxmag])
        bad_tol = O.and_(guard, nz, mm <= cmax * aden, lhs > O.tau(t) * mm * tol_scale)
        return Ob(label, bad, bad_tol, step)
    if den == 0 or not guard: return Ob(label, False, False, step)
    mm = max(abs(m) for m in maxmag)
    c = mm / abs(den)
    if c > cmax: return Ob(label, False, False, step)
    ref = num / den
    v = abs(impl - ref) > O.tau(t) * c * tol_scale
    return Ob(label, impl != ref, v, step)


def ob_pred(label, bad, bad_tol=None, step=None):
    return Ob(label, bad, bad_tol, step)


# ----------------------------------------------------------------------------------------------
def to_float_stream(stream_vals):
    out = []
    for v in stream_vals:
        if isinstance(v, (tuple, list)): out.append(tuple(float(x) for x in v))
        else: out.append(float(v))
    return out


def frac_stream(fs):
    return [tuple(F(x) for x in v) if isinstance(v, tuple) else F(v) for v in fs]


def model_stream(m, stream):
    out = []
    for v in stream:
        if isinstance(v, (tuple, list)): out.append(tuple(rcore.model_val(m, x) for x in v))
        else: out.append(rcore.model_val(m, v))
    return out


def stream_vars(stream):
    xs = []
    for v in stream:
        if isinstance(v, (tuple, list)): xs += [x for x in v if is_sym(x)]
        elif is_sym(v): xs.append(v)
    return xs


def finite(outs):
    import math
    return all(isinstance(x, float) and math.isfinite(x) for o in outs if isinstance(o, list) for x in o)


class Scenario:
    """A scenario = how to drive instances (symbolically in R, natively in the replay binary) plus
    the obligations relating outputs and inputs.  Subclasses/fields:
       name, periods, mult
       script(stream) -> list of ops understood by both drivers
       obligations(stream, outs, params) -> [Ob]   (generic numbers)
    The default script is: construct, feed every stream element, collect outputs."""

    def __init__(s, name, periods=(), mult=None, obligations=None, label=None):
        s.name, s.periods, s.mult = name, tuple(periods), mult
        s.obl = obligations
        s.label = label or '%s(%s%s)' % (name, ','.join(map(str, periods)), '' if mult is None else ',m')

    # --- symbolic run on the MIR
    def run_r(s, ex, stream, mult=None):
        inst = RInst.create(ex, s.name, s.periods, s.mult if mult is None else mult)
        return [inst.feed(v) for v in stream]

    # --- native run; returns list of output lists (floats) or raises
    def native_lines(s, fstream, fmult=None):
        return [native.new_cmd('a', s.name, s.periods, fmult)] + [native.feed_cmd('a', v) for v in fstream]

    def run_native(s, fstream, fmult=None, profile='dev'):
        lines = s.native_lines(fstream, fmult)
        rep = native.run_script(lines, profile)
        if rep[0][0] != 'ok': return lines, None
        outs = []
        for r in rep[1:]:
            outs.append(r[1] if r[0] == 'out' else r[0])
        return lines, outs


def confirm_native(sc, fstream, fmult, obligations_fn, profiles=('dev', 'release')):
    """run natively, evaluate the obligations with exact rationals; -> (violated labels, lines, detail)"""
    import math
    for prof in profiles:
        lines, outs = sc.run_native(fstream, fmult, prof)
        if outs is None: return [], lines, 'constructor failed natively'
        if any(o == 'panic' for o in outs):
            return ['panic'], lines, 'native panic (%s profile)' % prof
        flat_ok = all(isinstance(o, list) and all(math.isfinite(x) for x in o) for o in outs)
        if not flat_ok:
            return ['non-finite'], lines, 'native output is NaN/inf: %r (%s profile)' % (outs, prof)
        fouts = [[F(x) for x in o] for o in outs]
        obs = obligations_fn(frac_stream(fstream), fouts, None if fmult is None else F(fmult))
        bad = [o.label for o in obs if o.bad_tol]
        if bad:
            return bad, lines, 'native (%s): inputs=%r outputs=%r violate %s' % (prof, fstream, outs, bad[:4])
    return [], lines, ''


def discharge(sc, ex, stream, outs, obligations, assumptions, seed=0, timeout_s=60, mult_var=None,
              obligations_fn=None, family=None, bounds=None, witness_fn=None, stats=None, required=True):
    """decide all obligations; returns a family result"""
    st = stats or rcore.Stats()
    family = family or sc.label
    assume = list(assumptions) + list(ex.defs) + list(ex.nopanic)
    xs = stream_vars(stream) + ([mult_var] if mult_var is not None and is_sym(mult_var) else [])
    res = dict(bounds=bounds, obligations=len(obligations), discharged=0, symbolic_inputs=len(xs),
               functions=sorted(ex.called), lib_models=sorted(ex.lib_called), stats=None, witness=None)
    live = [o for o in obligations if is_sym(o.bad) or o.bad is True]
    res['discharged'] = len(obligations) - len(live)
    status, detail, replay = 'ok', '', None

    def try_confirm(models, label):
        for mm in models:
            if mm is None or obligations_fn is None: continue
            try:
                fstream = to_float_stream(model_stream(mm, stream))
                fmult = float(rcore.model_val(mm, mult_var)) if mult_var is not None else (None if sc.mult is None else float(sc.mult))
            except (ValueError, OverflowError):
                continue
            bad, lines, why = confirm_native(sc, fstream, fmult, obligations_fn)
            if bad: return ('%s: %s' % (label, why), lines)
        return None

    if live:
        allbad = O.or_(*[o.bad for o in live])
        r, m = rcore.solve(st, assume, allbad, timeout_s, seed, label=family + ' : any obligation violated exactly')
        if r == 'unsat':
            res['discharged'] = len(obligations)
        elif r == 'sat' and try_confirm([m], 'some obligation') is not None:
            status, (detail, replay) = 'violation', try_confirm([m], 'some obligation')
        else:
            alltol = O.or_(*[o.bad_tol for o in live])
            r2, m2 = rcore.solve(st, assume, alltol, timeout_s, seed, stages=(2,),
                                 label=family + ' : any obligation violated beyond the tolerance')
            if r2 == 'unsat':
                res['discharged'] = len(obligations)
            else:
                got = None
                if r2 == 'sat':
                    ms = rcore.snap_model(assume, alltol, xs, 10, seed)
                    got = try_confirm([ms, m2], 'some obligation')
                if got is None:
                    # isolate obligation by obligation (smaller queries), confirm natively
                    tcap = max(5, min(timeout_s, 20))
                    for o in live:
                        r1, m1 = rcore.solve(st, assume, o.bad, tcap, seed)
                        if r1 == 'unsat':
                            res['discharged'] += 1; continue
                        r3, m3 = rcore.solve(st, assume, o.bad_tol, tcap, seed, stages=(2,))
                        if r3 == 'unsat':
                            res['discharged'] += 1; continue
                        cands = []
                        if r3 == 'sat': cands = [rcore.snap_model(assume, o.bad_tol, xs, 5, seed), m3]
                        elif r1 == 'sat': cands = [m1]
                        got = try_confirm(cands, o.label)
                        if got is not None: break
                        status = 'undecided'
                        detail = ('solver %s on obligation %s' % (r3, o.label)) if r3 != 'sat' else \
                            'solver model for %s did not reproduce natively (real-vs-float abstraction?)' % o.label
                if got is not None:
                    status, (detail, replay) = 'violation', got
    # vacuity witness: a perturbed oracle must be refutable
    if witness_fn is not None and status == 'ok':
        wbad = witness_fn()
        r, _ = rcore.solve(st, assume, wbad, min(timeout_s, 30), seed, stages=(2,))
        res['witness'] = 'alive' if r == 'sat' else 'dead'
        if r != 'sat':
            status, detail = 'undecided', 'vacuity witness not satisfiable (%s): family may be vacuous' % r
    res['stats'] = st.as_dict()
    res['sample'] = {'inputs': [str(v) for v in stream[:3]], 'output_term': str(outs[-1][0])[:200] if outs and outs[-1] else '',
                     'obligation': obligations[-1].label if obligations else ''}
    return fam_result(family, 'R', status, detail=detail, replay=replay, **res)


def validate_translator(mir, scenarios, seed, n_streams=2, length=9):
    """concrete rational streams through R (concrete mode) and the natively compiled crate"""
    rnd = random.Random(seed * 7919 + 13)
    count, problems = 0, []
    for sc in scenarios:
        d = IND[sc.name]
        for mode in (['scalar'] if d['scalar'] else []) + ['bar']:
            for _ in range(n_streams):
                stream = []
                for i in range(length):
                    if mode == 'scalar': stream.append(F(rnd.randint(1, 4000), 16))
                    else:
                        l = F(rnd.randint(1, 400), 8); h = l + F(rnd.randint(1, 80), 8)
                        c = l + (h - l) * F(rnd.randint(0, 4), 4)
                        stream.append((F(rnd.randint(1, 400), 8), h, l, c, F(rnd.randint(1, 4000), 8)))
                ex = Executor(mir)
                mult = None if sc.mult is None else F(rnd.randint(0, 12), 4)
                try:
                    outs = sc.run_r(ex, stream, mult)
                except PathDead:
                    continue                     # e.g. 0/0 on a tie: not a translator question
                lines, nat = sc.run_native(to_float_stream(stream), None if mult is None else float(mult))
                count += 1
                for o, no in zip(outs, nat or []):
                    for a, b in zip(o, no if isinstance(no, list) else []):
                        if is_sym(a):
                            s_ = z3.Solver(); s_.add(*ex.defs); s_.check()
                            a = rcore.model_val(s_.model(), a)
                        if abs(float(a) - b) > 1e-9 * max(1.0, abs(b)):
                            problems.append('%s %s: R=%r native=%r' % (sc.label, mode, float(a), b))
    return count, problems
