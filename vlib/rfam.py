"""Generic query-family machinery of engine R: obligations written once over generic numbers
(z3 terms for the solver, Fractions for the native confirmation), discharge, replay, witnesses."""
import random, time
from fractions import Fraction
import z3
from .mirsym import Executor, Unsupported, PathDead, is_sym, R, conc, to_z3
from .inds import IND, RInst
from . import oracles as O, rcore, native
from .framework import fam_result

F = Fraction


class Ob:
    """one obligation: `bad` = exact violation condition, `bad_tol` = violation beyond the property's
    tolerance (both bool or z3 Bool)."""
    __slots__ = ('label', 'bad', 'bad_tol', 'step')

    def __init__(s, label, bad, bad_tol=None, step=None):
        s.label, s.bad, s.bad_tol, s.step = label, bad, (bad if bad_tol is None else bad_tol), step


def ob_eq(label, impl, ref, scale, tol, guard=True, square=False, step=None):
    """impl == ref, within tol * max|scale| (squared magnitudes if square)"""
    d = impl - ref
    ad = O.absv(d)
    sc = [(s * s if square else O.absv(s)) for s in scale]
    bad = O.and_(guard, O.not_(O.eq(impl, ref)))
    bad_tol = O.and_(guard, *[ad > tol * s for s in sc]) if sc else O.and_(guard, ad > tol)
    return Ob(label, bad, bad_tol, step)


def ob_ratio(label, impl, num, den, maxmag, tol_scale, t, cmax=F(10) ** 6, guard=True, step=None):
    """impl == num/den wherever den != 0 and the condition number c = maxmag/|den| <= cmax;
    tolerance tau(t) * c * tol_scale"""
    aden = O.absv(den)
    nz = O.not_(O.eq(den, F(0)))
    if O.sym(impl, num, den):
        ref = R(num) / R(den)
        bad = O.and_(guard, nz, O.not_(O.eq(impl, ref)))
        # |impl*den - num| > tau * maxmag * scale   (multiplied through by |den|)
        lhs = O.absv(R(impl) * R(den) - R(num))
        bad_tol = O.and_(guard, nz, *[O.and_(O.absv(m) <= cmax * aden, lhs > O.tau(t) * O.absv(m) * tol_scale) for m in maxmag])
        # the conjunction over m is exact for "max": both clauses are monotone in |m| in opposite directions, so use the max explicitly instead
        mm = O.fold(O.maxv, [O.absv(m) for m in maxmag])
        bad_tol = O.and_(guard, nz, mm <= cmax * aden, lhs > O.tau(t) * mm * tol_scale)
        return Ob(label, bad, bad_tol, step)
    if den == 0 or not guard: return Ob(label, False, False, step)
    mm = max(abs(m) for m in maxmag)
    c = mm / abs(den)
    if c > cmax: return Ob(label, False, False, step)
    ref = num / den
    v = abs(impl - ref) > O.tau(t) * c * tol_scale
    return Ob(label, impl != ref, v, step)


def ob_pred(label, bad, bad_tol=None, step=None):
    return Ob(label, bad, bad_tol, step)


# ----------------------------------------------------------------------------------------------
# Operation scripts: the same list of ops drives the MIR executor (symbolic or concrete values)
# and the native replay binary (concrete values).
#   ('new', slot, name, periods, mult) ('default', slot, name) ('feed', slot, value) ('reset', slot)
#   ('clone', src, dst)
def ops_stream(name, periods, mult, stream, slot='a'):
    return [('new', slot, name, tuple(periods), mult)] + [('feed', slot, v) for v in stream]


def run_ops_r(ex, ops):
    """-> list aligned with ops: output list for 'feed', None otherwise"""
    insts, outs = {}, []
    for op in ops:
        k = op[0]
        if k == 'new':
            insts[op[1]] = RInst.create(ex, op[2], op[3], op[4]); outs.append(None)
        elif k == 'default':
            insts[op[1]] = RInst.default(ex, op[2]); outs.append(None)
        elif k == 'feed':
            outs.append(insts[op[1]].feed(op[2]))
        elif k == 'feed_di':
            outs.append(insts[op[1]].next_bar(op[2], 'DataItem'))
        elif k == 'pipe':                      # ('pipe', dst, src, component): feed dst with the last output of src
            src_out = [o for o2, o in zip(ops[:len(outs)], outs) if o2[0] in ('feed', 'feed_di', 'pipe') and o2[1] == op[2]][-1]
            outs.append(insts[op[1]].next(src_out[op[3]]))
        elif k == 'reset':
            insts[op[1]].reset(); outs.append(None)
        elif k == 'clone':
            insts[op[2]] = insts[op[1]].clone(); outs.append(None)
        else:
            raise ValueError(op)
    return outs, insts


def _cv(m, v, as_float):
    if isinstance(v, (tuple, list)): return tuple(_cv(m, x, as_float) for x in v)
    if v is None: return None
    x = rcore.model_val(m, v) if m is not None else v
    if isinstance(x, bool) or (isinstance(x, int) and not as_float): return x
    return float(x) if as_float else x


def concretize_ops(ops, m):
    """replace symbolic values by their model values; stream values and multipliers become python floats"""
    out = []
    for op in ops:
        if op[0] == 'new':
            per = tuple(int(rcore.model_val(m, p)) if is_sym(p) else int(p) for p in op[3])
            mult = None if op[4] is None else float(rcore.model_val(m, op[4]) if is_sym(op[4]) else op[4])
            out.append(('new', op[1], op[2], per, mult))
        elif op[0] in ('feed', 'feed_di'):
            out.append((op[0], op[1], _cv(m, op[2], True)))
        else:
            out.append(op)
    return out


def ops_exact(ops):
    """float ops -> the same ops with exact Fractions (for the oracle)"""
    out = []
    for op in ops:
        if op[0] == 'new':
            out.append(('new', op[1], op[2], op[3], None if op[4] is None else F(op[4])))
        elif op[0] in ('feed', 'feed_di'):
            v = op[2]
            out.append((op[0], op[1], tuple(F(x) for x in v) if isinstance(v, tuple) else F(v)))
        else:
            out.append(op)
    return out


def ops_lines(ops):
    lines = []
    for op in ops:
        k = op[0]
        if k == 'new': lines.append(native.new_cmd(op[1], op[2], op[3], op[4]))
        elif k == 'default': lines.append('default %s %s' % (op[1], op[2]))
        elif k == 'feed': lines.append(native.feed_cmd(op[1], op[2]))
        elif k == 'feed_di': lines.append('dibar %s %s' % (op[1], ' '.join(native.arg(x) for x in op[2])))
        elif k == 'pipe': lines.append('nextfrom %s %s %d' % (op[1], op[2], op[3]))
        elif k == 'reset': lines.append('reset %s' % op[1])
        elif k == 'clone': lines.append('clone %s %s' % (op[1], op[2]))
    return lines


def run_ops_native(ops, profile='dev'):
    lines = ops_lines(ops)
    rep = native.run_script(lines, profile)
    outs = []
    for op, r in zip(ops, rep):
        if op[0] in ('feed', 'feed_di', 'pipe'): outs.append(r[1] if r[0] == 'out' else r[0])
        elif op[0] == 'new' and r[0] != 'ok': outs.append('ctor:' + ' '.join(map(str, r)))
        elif r[0] == 'panic': outs.append('panic')
        else: outs.append(None)
    return lines, outs


def ops_vars(ops):
    xs = []
    def add(v):
        if isinstance(v, (tuple, list)):
            for x in v: add(x)
        elif is_sym(v) and z3.is_real(v): xs.append(v)
    for op in ops:
        if op[0] in ('feed', 'feed_di'): add(op[2])
        elif op[0] == 'new' and op[4] is not None: add(op[4])
    return xs


def feeds(ops, outs, slot=None):
    """[(value, output)] of the feed ops (of one slot)"""
    return [(op[2], o) for op, o in zip(ops, outs) if op[0] in ('feed', 'feed_di', 'pipe') and (slot is None or op[1] == slot)]


def feeds_since_reset(ops, outs, slot='a'):
    """feeds of one slot after its last reset (t counts inputs since construction/reset)"""
    last = -1
    for i, op in enumerate(ops):
        if op[0] == 'reset' and op[1] == slot: last = i
    return [(op[2], o) for i, (op, o) in enumerate(zip(ops, outs)) if i > last and op[0] in ('feed', 'feed_di', 'pipe') and op[1] == slot]


def lineage_feeds(ops, outs, slot):
    """the (value, output) sequence that determines `slot`'s current state: follows clone ancestry, restarts at a reset"""
    lists = {}
    for op, o in zip(ops, outs):
        k = op[0]
        if k in ('new', 'default'): lists[op[1]] = []
        elif k in ('feed', 'feed_di', 'pipe'): lists.setdefault(op[1], []).append((op[2], o))
        elif k == 'reset': lists[op[1]] = []
        elif k == 'clone': lists[op[2]] = list(lists.get(op[1], []))
    return lists.get(slot, [])


def with_clone_at(ops, k, slot='a', dst='c'):
    """[new, feeds..] -> first k feeds on `slot`, clone into `dst`, remaining feeds on `dst`"""
    out, cnt = [ops[0]], 0
    cloned = False
    for op in ops[1:]:
        if op[0] == 'feed' and op[1] == slot:
            if cnt == k and not cloned:
                out.append(('clone', slot, dst)); cloned = True
            out.append(('feed', dst if cloned else slot, op[2])); cnt += 1
        else:
            out.append(op)
    return out


def with_reset_prefix(ops, prefix_values, slot='a'):
    """[new, feeds..] -> [new, feed prefix.., reset, feeds..]"""
    return [ops[0]] + [('feed', slot, v) for v in prefix_values] + [('reset', slot)] + list(ops[1:])


def confirm_native(ops_f, obligations_fn, profiles=('dev', 'release')):
    """run natively, evaluate the obligations with exact rationals; -> (violated labels, lines, detail)"""
    import math
    for prof in profiles:
        lines, outs = run_ops_native(ops_f, prof)
        if any(isinstance(o, str) and o.startswith('ctor:') for o in outs): return [], lines, 'constructor failed natively'
        if any(o == 'panic' for o in outs):
            return ['panic'], lines, 'native panic (%s profile)' % prof
        tail_only = getattr(obligations_fn, 'tail_only', False)
        if tail_only:
            # only the final outputs of each slot are compared by these obligations: intermediate NaN/inf (e.g. a zero reference price) is not the subject
            lastidx = {}
            for i, op in enumerate(ops_f):
                if op[0] in ('feed', 'feed_di', 'pipe'): lastidx[op[1]] = i
            outs = [o if (o is None or i in lastidx.values() or (isinstance(o, list) and all(math.isfinite(x) for x in o))) else [0.0] * len(o) for i, o in enumerate(outs)]
        if not all(o is None or (isinstance(o, list) and all(math.isfinite(x) for x in o)) for o in outs):
            return ['non-finite'], lines, 'native output is NaN/inf: %r (%s profile)' % ([o for o in outs if o is not None], prof)
        fouts = [None if o is None else [F(x) for x in o] for o in outs]
        obs = obligations_fn(ops_exact(ops_f), fouts)
        bad = [o.label for o in obs if o.bad_tol]
        if bad:
            return bad, lines, 'native (%s): ops=%r outputs=%r violate %s' % (
                prof, [op[1:] if op[0] != 'feed' else op[2] for op in ops_f], [o for o in outs if o is not None], bad[:4])
    return [], lines, ''


def discharge(ex, ops, outs, obligations, assumptions, obligations_fn=None, seed=0, timeout_s=60,
              family='?', bounds=None, witness_fn=None, stats=None, int_vars=()):
    """decide all obligations; returns a family result"""
    st = stats or rcore.Stats()
    deadline = time.time() + 8 * timeout_s           # wall budget of one family: beyond it the family is undecided, not silently truncated
    assume = list(assumptions) + list(ex.defs) + list(ex.nopanic)
    xs = ops_vars(ops)
    res = dict(bounds=bounds, obligations=len(obligations), discharged=0, symbolic_inputs=len(xs) + len(int_vars),
               functions=sorted(ex.called), lib_models=sorted(ex.lib_called), stats=None, witness=None)
    live = [o for o in obligations if is_sym(o.bad) or o.bad is True]
    res['discharged'] = len(obligations) - len(live)
    status, detail, replay = 'ok', '', None

    def try_confirm(models, label):
        for mm in models:
            if mm is None or obligations_fn is None: continue
            try:
                ops_f = concretize_ops(ops, mm)
            except (ValueError, OverflowError):
                continue
            bad, lines, why = confirm_native(ops_f, obligations_fn)
            if bad: return ('%s: %s' % (label, why), lines)
        return None

    if live:
        allbad = O.or_(*[o.bad for o in live])
        r, m = rcore.solve(st, assume, allbad, timeout_s, seed, label=family + ' : any obligation violated exactly', stages=(0, 1))
        if r != 'unsat':
            # obligation by obligation through the cheap stages; only the residue goes to exact NRA
            rest = []
            for o in live:
                if time.time() > deadline:
                    rest.append(o); continue
                r1, _ = rcore.solve(st, assume, o.bad, timeout_s, seed, stages=(0, 1), label=family + ' : ' + o.label)
                if r1 != 'unsat': rest.append(o)
            res['discharged'] = len(obligations) - len(rest)
            live = rest
            if live:
                allbad = O.or_(*[o.bad for o in live])
                r, m = rcore.solve(st, assume, allbad, timeout_s, seed, stages=(2,), label=family + ' : residue, exact NRA')
            else:
                r = 'unsat'
        if r == 'unsat':
            res['discharged'] = len(obligations)
        elif r == 'sat' and try_confirm([m], 'some obligation') is not None:
            status, (detail, replay) = 'violation', try_confirm([m], 'some obligation')
        else:
            alltol = O.or_(*[o.bad_tol for o in live])
            r2, m2 = rcore.solve(st, assume, alltol, timeout_s, seed, stages=(2,),
                                 label=family + ' : any obligation violated beyond the tolerance')
            if r2 == 'unsat':
                res['discharged'] = len(obligations)
            else:
                got = None
                if r2 == 'sat':
                    ms = rcore.snap_model(assume, alltol, xs, 10, seed)
                    got = try_confirm([ms, m2], 'some obligation')
                if got is None:
                    # isolate obligation by obligation (smaller queries), confirm natively
                    tcap = max(5, min(timeout_s, 20))
                    for o in live:
                        if time.time() > deadline:
                            status, detail = 'undecided', 'family time budget (%d s) exhausted with obligations left' % (8 * timeout_s); break
                        r1, m1 = rcore.solve(st, assume, o.bad, tcap, seed)
                        if r1 == 'unsat':
                            res['discharged'] += 1; continue
                        r3, m3 = rcore.solve(st, assume, o.bad_tol, tcap, seed, stages=(2,))
                        if r3 == 'unsat':
                            res['discharged'] += 1; continue
                        cands = []
                        if r3 == 'sat': cands = [rcore.snap_model(assume, o.bad_tol, xs, 5, seed), m3]
                        elif r1 == 'sat': cands = [m1]
                        got = try_confirm(cands, o.label)
                        if got is None and xs:
                            # z3's arbitrary model may be badly conditioned (magnitudes 1e-40 next to 1e12): look for a counterexample whose
                            # inputs all lie in one three-decade band [s, 1000 s], where the property's tolerance / condition clauses apply
                            s_ = z3.Real('band!s')
                            band = [s_ > 0] + [z3.And(O.absv(x) >= s_, O.absv(x) <= 1000 * s_) for x in xs]
                            if len(xs) <= 40:        # and well separated: two inputs are equal or differ by at least s/1000 (so that rounding to f64 keeps the model's structure)
                                band += [z3.Or(xs[i] == xs[j], O.absv(xs[i] - xs[j]) >= s_ / 1000) for i in range(len(xs)) for j in range(i + 1, len(xs))]
                            rb, mb = rcore.solve(st, assume + band, o.bad_tol, tcap, seed, stages=(2,))
                            if rb == 'sat': got = try_confirm([mb], o.label)
                        if got is not None: break
                        status = 'undecided'
                        detail = ('solver %s on obligation %s' % (r3, o.label)) if r3 != 'sat' else \
                            'solver model for %s did not reproduce natively (real-vs-float abstraction?)' % o.label
                if got is not None:
                    status, (detail, replay) = 'violation', got
    # vacuity witness: a perturbed oracle must be refutable
    if witness_fn is not None and status == 'ok':
        wbad = witness_fn()
        alive = rcore.witness_sat(st, assume, wbad, xs, int_vars, seed)
        r = 'sat' if alive else 'not sat'
        res['witness'] = 'alive' if alive else 'dead'
        if r != 'sat':
            status, detail = 'undecided', 'vacuity witness not satisfiable (%s): family may be vacuous' % r
    res['stats'] = st.as_dict()
    if st.cvc5_disagree and status == 'ok':
        status, detail = 'undecided', 'cvc5 disagrees with z3 on %d sampled query(ies)' % st.cvc5_disagree
    fo = [o for o in outs if o is not None]
    res['sample'] = {'ops': [str(op)[:120] for op in ops[:4]], 'last_output_term': str(fo[-1][0])[:240] if fo else '',
                     'obligation': obligations[-1].label if obligations else ''}
    return fam_result(family, 'R', status, detail=detail, replay=replay, **res)


def validate_translator(mir, specs, seed, n_streams=2, length=9):
    """concrete rational streams through R (concrete mode) and the natively compiled crate;
    specs: list of (name, periods, mult or None)"""
    rnd = random.Random(seed * 7919 + 13)
    count, problems = 0, []
    for (name, periods, mult) in specs:
        d = IND[name]
        for mode in (['scalar'] if d['scalar'] else []) + ['bar']:
            for _ in range(n_streams):
                stream = []
                for i in range(length):
                    if mode == 'scalar': stream.append(F(rnd.randint(1, 4000), 16))
                    else:
                        l = F(rnd.randint(1, 400), 8); h = l + F(rnd.randint(1, 80), 8)
                        c = l + (h - l) * F(rnd.randint(0, 4), 4)
                        stream.append((F(rnd.randint(1, 400), 8), h, l, c, F(rnd.randint(1, 4000), 8)))
                ex = Executor(mir)
                m = None if mult is None else F(rnd.randint(0, 12), 4)
                ops = ops_stream(name, periods, m, stream)
                try:
                    outs, _ = run_ops_r(ex, ops)
                except PathDead:
                    continue                     # e.g. 0/0 on a tie: not a translator question
                except Unsupported as e:
                    problems.append('%s %s: R cannot encode: %r' % (name, mode, e)); break
                lines, nat = run_ops_native(concretize_ops(ops, None))
                count += 1
                for o, no in zip(outs, nat):
                    if o is None: continue
                    for a, b in zip(o, no if isinstance(no, list) else []):
                        if is_sym(a):
                            s_ = z3.Solver(); s_.add(*ex.defs); s_.check()
                            a = rcore.model_val(s_.model(), a)
                        if abs(float(a) - b) > 1e-9 * max(1.0, abs(b)):
                            problems.append('%s %s: R=%r native=%r' % (name, mode, float(a), b))
    return count, problems


# ------------------------------------------------------------------------------------------------
# generic family runner used by most properties
PMAX = 10 ** 6


def make_periods(spec, tag='p'):
    """spec: ints or 'p' (symbolic integer period: every period 1..PMAX at once)"""
    ps, assume = [], []
    for k, v in enumerate(spec):
        if v == 'p':
            p = z3.Int('%s%d' % (tag, k)); ps.append(p); assume.append(z3.And(p >= 1, p <= PMAX))
        else:
            ps.append(v)
    return ps, assume


def make_stream(mode, t, prefix='x'):
    return rcore.reals(prefix, t) if mode == 'scalar' else rcore.bar_vars(prefix, t)


def stream_assumptions(stream, kind):
    """kind: 'any' | 'positive' | 'validbar' (0 < low <= open,close <= high, volume >= 0) | 'lowhigh' (low <= high)"""
    out = []
    for v in stream:
        if isinstance(v, (tuple, list)):
            out += rcore.bounds([x for x in v if is_sym(x)])
            if kind in ('validbar', 'positive'): out += rcore.valid_bar(v)
            elif kind == 'validbar-anysign': out += rcore.valid_bar(v, positive=False)
            elif kind == 'lowhigh': out.append(v[2] <= v[1])
        elif is_sym(v):
            out += rcore.bounds([v])
            if kind in ('positive', 'validbar'): out.append(v > 0)
    return out


def run_family(mir, fam, ops, assume, obligations_fn, seed, timeout_s, sym_obs_fn=None, bounds=None,
               required=True, witness='perturb', exec_assume=(), int_vars=()):
    """execute ops on the MIR, build obligations (sym_obs_fn(ops, outs, insts, ex) or obligations_fn(ops, outs)), discharge"""
    ex = Executor(mir, assumptions=list(exec_assume))
    try:
        outs, insts = run_ops_r(ex, ops)
        obs = sym_obs_fn(ops, outs, insts, ex) if sym_obs_fn else obligations_fn(ops, outs)
    except (Unsupported, PathDead) as e:
        return fam_result(fam, 'R', 'undecided', detail='R cannot encode: %r' % (e,), bounds=bounds, required=required,
                          functions=sorted(ex.called), lib_models=sorted(ex.lib_called))
    wit = lambda: z3.BoolVal(True)          # default: the assumptions must at least be satisfiable
    if witness == 'perturb' and obligations_fn is not None:
        def wit():
            exp = obligations_fn(ops, [None if o is None else [x + 1 for x in o] for o in outs])
            cand = [o.bad for o in exp if is_sym(o.bad) or o.bad is True]
            return O.or_(*cand[-2:]) if cand else z3.BoolVal(True)
    elif witness == 'perturb_pm' and obligations_fn is not None:
        def wit():
            big = F(10) ** 17
            cands = []
            for sgn in (1, -1):
                exp = obligations_fn(ops, [None if o is None else [o[0] + sgn * big] + list(o[1:]) for o in outs])
                cands += [o.bad for o in exp if is_sym(o.bad) or o.bad is True][-2:]
            return O.or_(*cands) if cands else z3.BoolVal(False)
    elif callable(witness):
        wit = lambda: witness(ops, outs, insts, ex)
    r = discharge(ex, ops, outs, obs, list(assume) + list(exec_assume), obligations_fn, seed=seed, timeout_s=timeout_s,
                  family=fam, bounds=bounds, witness_fn=wit, int_vars=list(int_vars))
    r['required'] = required
    return r
