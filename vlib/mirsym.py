"""Engine R ("mirsym"): symbolic execution of the MIR that rustc emits for /repo into z3 terms.

f64 values are modelled as exact reals (python Fraction when concrete, z3 Real when symbolic);
integers as mathematical integers with the compiler-inserted overflow / bounds assertions kept.
See DESIGN.md section 2.1 for the abstraction and what it does not decide.
"""
import os, re, shutil, subprocess, time, itertools
from fractions import Fraction
import z3

BIG = Fraction(10) ** 400          # stands for f64::INFINITY (inputs are bounded by 1e12)


class Unsupported(Exception):
    """MIR construct / library call the executor does not model: the query is undecided."""


class PathDead(Exception):
    """The current path ends in a (concrete) panic / unreachable."""


# ----------------------------------------------------------------------------- MIR dump + parse
def dump_mir(repo='/repo', work=None, features=False):
    """Dump MIR of /repo's *current working tree* (copied to a scratch dir, removed afterwards)."""
    if work is None:
        work = os.path.join(os.path.dirname(os.path.dirname(os.path.abspath(__file__))), '.work')
    scratch = os.path.join(work, 'mirdump_%d' % os.getpid())
    shutil.rmtree(scratch, ignore_errors=True)
    os.makedirs(scratch)
    try:
        shutil.copytree(os.path.join(repo, 'src'), os.path.join(scratch, 'src'))
        for f in ('Cargo.toml', 'Cargo.lock'):
            if os.path.exists(os.path.join(repo, f)):
                shutil.copy(os.path.join(repo, f), scratch)
        env = dict(os.environ, CARGO_NET_OFFLINE='true', CARGO_TARGET_DIR=os.path.join(scratch, 'target'))
        cmd = ['cargo', '+nightly', 'rustc', '--offline', '--lib', '--no-default-features', '--',
               '-Zunpretty=mir', '-C', 'debug-assertions=off', '-C', 'overflow-checks=on']
        t0 = time.time()
        p = subprocess.run(cmd, cwd=scratch, env=env, capture_output=True, text=True)
        if p.returncode != 0 or 'fn ' not in p.stdout:
            raise RuntimeError('MIR dump failed:\n' + p.stderr[-3000:])
        srcs = {}
        for root, _, files in os.walk(os.path.join(scratch, 'src')):
            for f in files:
                if f.endswith('.rs'):
                    full = os.path.join(root, f)
                    srcs[os.path.relpath(full, scratch)] = open(full).read().split('\n')
        return Mir(p.stdout, srcs, time.time() - t0)
    finally:
        shutil.rmtree(scratch, ignore_errors=True)


class Fn:
    __slots__ = ('name', 'nparams', 'ptypes', 'ret', 'blocks', 'ipdom', 'succ', 'generic', 'ltypes')

    def __init__(s, name, nparams, ptypes, ret, blocks):
        s.name, s.nparams, s.ptypes, s.ret, s.blocks = name, nparams, ptypes, ret, blocks
        s.ipdom = None
        s.succ = None


def split_top(s, sep=','):
    out, depth, cur, i = [], 0, '', 0
    instr = False
    while i < len(s):
        ch = s[i]
        if instr:
            cur += ch
            if ch == '\\':
                cur += s[i + 1]; i += 1
            elif ch == '"':
                instr = False
        elif ch == '"':
            instr = True; cur += ch
        else:
            if ch in '([{': depth += 1
            elif ch in ')]}': depth -= 1
            elif ch == '<' and i + 1 < len(s) and s[i + 1] not in ' =': depth += 1
            elif ch == '>' and i > 0 and s[i - 1] not in '-= ' and depth > 0: depth -= 1
            if ch == sep and depth == 0:
                out.append(cur.strip()); cur = ''
            else:
                cur += ch
        i += 1
    if cur.strip():
        out.append(cur.strip())
    return out


def short_type(t):
    """last path segment of a type name, without generic args and references"""
    t = t.strip()
    t = re.sub(r"^&(?:'\w+ )?(?:mut )?", '', t)
    t = re.sub(r'(::)?<.*>$', '', t)
    return t.split('::')[-1]


class Mir:
    def __init__(s, text, srcs, dump_s=0.0):
        s.text, s.srcs, s.dump_s = text, srcs, dump_s
        s.fns = {}
        for m in re.finditer(r'^fn (.*?)\((.*?)\) -> (.*?) \{\n(.*?)^\}\n', text, re.S | re.M):
            name, params, ret, body = m.groups()
            ptypes = [p.split(': ', 1)[1] for p in split_top(params)] if params.strip() else []
            blocks = {}
            for b in re.finditer(r'^    bb(\d+)(?: \(cleanup\))?: \{\n(.*?)^    \}\n', body, re.S | re.M):
                lines = [l.strip().rstrip(';') for l in b.group(2).split('\n') if l.strip()]
                blocks[int(b.group(1))] = lines
            fn_ = Fn(name, len(ptypes), ptypes, ret, blocks)
            fn_.ltypes = {int(a): b for a, b in re.findall(r'^\s*let (?:mut )?_(\d+): (.*?);', body, re.M)}
            s.fns[name] = fn_
        s.impls = {}
        s.closures = {}
        for name, fn in s.fns.items():
            if '{closure#' in name and fn.ptypes:
                m = re.search(r'\{closure@([^}]*)\}', fn.ptypes[0])
                if m: s.closures[m.group(1)] = fn
        s.enum_variants = {'Option': ['None', 'Some'], 'Result': ['Ok', 'Err'],
                           'ControlFlow': ['Continue', 'Break'], 'Ordering': ['Less', 'Equal', 'Greater']}
        s._impl_table()
        s._crate_enums()

    def _crate_enums(s):
        for lines in s.srcs.values():
            txt = '\n'.join(lines)
            for m in re.finditer(r'\benum (\w+)\s*\{(.*?)\}', txt, re.S):
                body = re.sub(r'//[^\n]*', '', m.group(2))
                vs = [re.match(r'\s*(\w+)', v).group(1) for v in split_top(body) if re.match(r'\s*\w+', v)]
                s.enum_variants[m.group(1)] = vs

    def _impl_table(s):
        for name, fn in s.fns.items():
            m = re.match(r'(.*)<impl at (src/[^:]+):(\d+):(\d+): \d+:\d+>::(\w+)$', name)
            if not m:
                if re.fullmatch(r'\w+', name):
                    s.impls[('', '', name)] = fn
                continue
            path, line, col, meth = m.group(2), int(m.group(3)), int(m.group(4)), m.group(5)
            src = s.srcs.get(path)
            if src is None:
                continue
            text = src[line - 1]
            h = re.match(r'\s*impl\s*(<[^{]*?>\s+)?(?:(.*?)\s+for\s+)?(.+?)\s*(?:where.*)?\{?\s*$', text)
            if h and text.lstrip().startswith('impl'):
                tr = h.group(2) or ''
                for pre in ('crate::traits::', 'crate::', 'traits::', 'fmt::', 'std::', 'core::'):
                    tr = tr.replace(pre, '')
                ty = short_type(h.group(3)) if not h.group(3).startswith('(') else h.group(3)
                s.impls[(ty, tr.replace(' ', ''), meth)] = fn
                fn.generic = bool(h.group(1))
            else:
                # derive: trait from the derive list by column, type from the first parameter
                tr = {'clone': 'Clone', 'fmt': 'Debug', 'eq': 'PartialEq', 'default': 'Default',
                      'serialize': 'Serialize', 'deserialize': 'Deserialize'}.get(meth, meth)
                ty = short_type(fn.ptypes[0]) if fn.ptypes else short_type(fn.ret)
                s.impls[(ty, tr, meth)] = fn

    def lookup(s, ty, tr, meth):
        return s.impls.get((ty, tr, meth))


# ----------------------------------------------------------------------------- values
class Agg:
    __slots__ = ('kind', 'f', 'names')

    def __init__(s, kind, f, names=None):
        s.kind, s.f, s.names = kind, tuple(f), names

    def __repr__(s):
        return '%s%r' % (s.kind, s.f)


class EnumV:
    __slots__ = ('ty', 'discr', 'pay')

    def __init__(s, ty, discr, pay):
        s.ty, s.discr, s.pay = ty, discr, pay       # pay: dict variant name -> tuple of fields

    def __repr__(s):
        return 'Enum<%s>(%r,%r)' % (s.ty, s.discr, s.pay)


class Ptr:
    __slots__ = ('oid', 'path', 'lo', 'hi')

    def __init__(s, oid, path=(), lo=None, hi=None):
        s.oid, s.path, s.lo, s.hi = oid, tuple(path), lo, hi

    def key(s):
        return (s.oid, s.path, s.lo, s.hi)

    def __repr__(s):
        return 'Ptr%r' % (s.key(),)


class AbsArr:
    """array of symbolic length whose contents are not tracked (reads return fresh reals, writes are dropped):
    a sound over-approximation for properties that do not depend on the stored values (totality)"""
    __slots__ = ('n',)

    def __init__(s, n):
        s.n = n


class Arr:
    __slots__ = ('e',)

    def __init__(s, e):
        s.e = tuple(e)

    def __repr__(s):
        return 'Arr%r' % (s.e,)


UNIT = Agg('tuple', ())


def is_sym(v):
    return isinstance(v, z3.ExprRef)


def to_z3(v):
    if is_sym(v): return v
    if isinstance(v, bool): return z3.BoolVal(v)
    if isinstance(v, int): return z3.IntVal(v)
    if isinstance(v, Fraction): return z3.Q(v.numerator, v.denominator)
    raise Unsupported('to_z3 %r' % (v,))


def R(v):
    """as a z3 Real term"""
    if is_sym(v):
        return z3.ToReal(v) if z3.is_int(v) else v
    if isinstance(v, Fraction): return z3.Q(v.numerator, v.denominator)
    if isinstance(v, int) and not isinstance(v, bool): return z3.Q(v, 1)
    raise Unsupported('R %r' % (v,))


def is_float(v):
    return isinstance(v, Fraction) or (is_sym(v) and z3.is_real(v))


def z3not(c):
    if is_sym(c):
        return z3.simplify(z3.Not(c))
    return not c


def conc(v):
    """collapse a z3 term to a python value when it is a literal"""
    if not is_sym(v): return v
    if z3.is_true(v): return True
    if z3.is_false(v): return False
    if z3.is_int_value(v): return v.as_long()
    if z3.is_rational_value(v): return Fraction(v.numerator_as_long(), v.denominator_as_long())
    return v


def scalar_eq(a, b):
    if a is b: return True
    if is_sym(a) and is_sym(b): return a.eq(b)
    if is_sym(a) or is_sym(b): return False
    return type(a) == type(b) and a == b


def merge_val(c, a, b):
    """ite(c, a, b) structurally; c is a z3 Bool"""
    if a is b: return a
    if a is None: return b
    if b is None: return a
    if isinstance(a, Agg) and isinstance(b, Agg):
        if a.kind != b.kind or len(a.f) != len(b.f):
            raise Unsupported('merge of different aggregates %s/%s' % (a.kind, b.kind))
        return Agg(a.kind, [merge_val(c, x, y) for x, y in zip(a.f, b.f)], a.names or b.names)
    if isinstance(a, EnumV) and isinstance(b, EnumV):
        pay = {}
        for k in set(a.pay) | set(b.pay):
            if k in a.pay and k in b.pay:
                pay[k] = tuple(merge_val(c, x, y) for x, y in zip(a.pay[k], b.pay[k]))
            else:
                pay[k] = a.pay.get(k, b.pay.get(k))
        return EnumV(a.ty or b.ty, merge_val(c, a.discr, b.discr), pay)
    if isinstance(a, Arr) and isinstance(b, Arr):
        if len(a.e) != len(b.e): raise Unsupported('merge of arrays of different length')
        return Arr([merge_val(c, x, y) for x, y in zip(a.e, b.e)])
    if isinstance(a, Ptr) and isinstance(b, Ptr):
        if a.key() == b.key(): return a
        if a.oid == b.oid and a.lo == b.lo and a.hi == b.hi and len(a.path) == len(b.path) and a.path and a.path[:-1] == b.path[:-1] \
                and isinstance(a.path[-1], tuple) and isinstance(b.path[-1], tuple) and a.path[-1][0] == 'i' and b.path[-1][0] == 'i':
            # two elements of the same array: a pointer with a symbolic index
            return Ptr(a.oid, a.path[:-1] + (('i', merge_val(c, a.path[-1][1], b.path[-1][1])),), a.lo, a.hi)
        raise Unsupported('merge of different pointers')
    if isinstance(a, (Agg, EnumV, Arr, Ptr)) or isinstance(b, (Agg, EnumV, Arr, Ptr)):
        raise Unsupported('merge of %r and %r' % (type(a), type(b)))
    if scalar_eq(a, b): return a
    za, zb = to_z3(a), to_z3(b)
    if z3.is_real(za) != z3.is_real(zb):
        za, zb = R(za), R(zb)
    return conc(z3.simplify(z3.If(c, za, zb)))


# ----------------------------------------------------------------------------- CFG helpers
_TERM_TARGETS = re.compile(r'bb(\d+)')


def block_succ(lines):
    t = lines[-1]
    if t == 'return': return ['EXIT']
    if t in ('unreachable', 'resume') or t.startswith('unreachable'): return ['EXIT']
    m = re.match(r'goto -> bb(\d+)', t)
    if m: return [int(m.group(1))]
    m = re.match(r'switchInt\(.*\) -> \[(.*)\]', t)
    if m: return [int(x) for x in _TERM_TARGETS.findall(m.group(1))]
    m = re.search(r'-> \[(?:return|success): bb(\d+)', t)
    if m: return [int(m.group(1))]
    m = re.search(r'-> bb(\d+)$', t)
    if m: return [int(m.group(1))]
    if re.search(r'-> unwind', t): return ['EXIT']      # diverging call
    raise Unsupported('terminator ' + t)


def compute_ipdom(fn):
    succ = {b: block_succ(l) for b, l in fn.blocks.items() if l}
    nodes = list(succ) + ['EXIT']
    succ['EXIT'] = []
    full = set(nodes)
    pdom = {n: set(full) for n in nodes}
    pdom['EXIT'] = {'EXIT'}
    changed = True
    while changed:
        changed = False
        for n in nodes:
            if n == 'EXIT': continue
            ss = succ[n]
            new = set.intersection(*[pdom[x] for x in ss]) if ss else set()
            new = new | {n}
            if new != pdom[n]:
                pdom[n] = new; changed = True
    ipdom = {}
    for n in nodes:
        cands = pdom[n] - {n}
        best = None
        for c in cands:                       # immediate = the one post-dominated by all other candidates
            if all(o in pdom[c] for o in cands):
                best = c
        ipdom[n] = best if best is not None else 'EXIT'
    fn.succ, fn.ipdom = succ, ipdom


# ----------------------------------------------------------------------------- executor
class Executor:
    def __init__(s, mir, assumptions=(), prune=True, timeout_ms=200):
        s.mir = mir
        s.heap = {}
        s.pc = []                   # current path condition (list of z3 Bool)
        s.assumptions = list(assumptions)
        s.defs = []                 # definitional side constraints (sqrt variables)
        s.nopanic = []              # Implies(pc, assert-condition) for every symbolic assert passed
        s.panics = []               # (cond z3 Bool, message, fn name)
        s.divs = []                 # (pc z3 Bool, denominator, fn name)
        s.sqrts = []                # (pc z3 Bool, argument, fn name)
        s.called = {}               # crate fn name -> count
        s.lib_called = {}           # library model name -> count
        s.allocs = []               # (fn name of caller chain, kind)
        s.fid = 0
        s.hid = 0
        s.fresh = 0
        s.prune = prune
        s.struct_fields = {}
        s.stack = []
        s._solver = None
        s.timeout_ms = timeout_ms
        s.fuel = 400000
        s.branches = 0
        s.bar_getters = {}

    # ---- misc
    def fresh_real(s, tag):
        s.fresh += 1
        return z3.Real('%s!%d' % (tag, s.fresh))

    def pc_term(s):
        return z3.And(*s.pc) if s.pc else z3.BoolVal(True)

    def alloc(s, value, kind='H'):
        s.hid += 1
        oid = (kind, s.hid)
        s.heap[oid] = value
        return oid

    def new_root(s, value, name=None):
        oid = s.alloc(value, 'R' if name is None else 'R:' + name)
        return Ptr(oid)

    def read_root(s, ptr):
        return s.heap[ptr.oid]

    def make_box(s, elems):
        if isinstance(elems, AbsArr):
            oid = s.alloc(elems, 'H')
            return Agg('Box', (Agg('Unique', (Ptr(oid, (), 0, elems.n),)),))
        oid = s.alloc(Arr(elems), 'H')
        return Agg('Box', (Agg('Unique', (Ptr(oid, (), 0, len(elems)),)),))

    def feasible(s, cond):
        """False only if pc /\\ assumptions /\\ cond is unsat (cheap check; unknown counts as feasible)"""
        if not s.prune: return True
        if s._solver is None:
            s._solver = z3.Solver()
            s._solver.set('timeout', s.timeout_ms)
        sol = s._solver
        sol.push()
        try:
            for a in s.assumptions: sol.add(a)
            for a in s.pc: sol.add(a)
            sol.add(cond)
            return sol.check() != z3.unsat
        finally:
            sol.pop()

    # ---- place handling
    def parse_place(s, txt):
        txt = txt.strip()
        c = _PLACE_CACHE.get(txt)
        if c is None:
            c = _PLACE_CACHE[txt] = _parse_place(txt)
        return c

    def resolve(s, fr, pl):
        """-> (oid, path, lo, hi)"""
        k = pl[0]
        if k == 'local':
            return (('L', fr, pl[1]), (), None, None)
        if k == 'deref':
            p = s.read_place(fr, pl[1])
            if not isinstance(p, Ptr):
                if isinstance(p, Agg) and p.kind == 'Box':      # *box
                    p = p.f[0].f[0]
                else:
                    raise Unsupported('deref of non-pointer %r' % (p,))
            return (p.oid, p.path, p.lo, p.hi)
        if k == 'field':
            oid, path, lo, hi = s.resolve(fr, pl[1])
            return (oid, path + (pl[2],), None, None)
        if k == 'downcast':
            oid, path, lo, hi = s.resolve(fr, pl[1])
            return (oid, path + (('v', pl[2]),), None, None)
        if k == 'index':
            oid, path, lo, hi = s.resolve(fr, pl[1])
            idx = s.heap.get(('L', fr, pl[2]))
            if idx is None: raise Unsupported('unset index local')
            base = lo if lo is not None else 0
            if base != 0:
                idx = idx + base
            return (oid, path + (('i', conc(idx)),), None, None)
        if k == 'constindex':
            oid, path, lo, hi = s.resolve(fr, pl[1])
            base = lo if lo is not None else 0
            return (oid, path + (('i', base + pl[2]),), None, None)
        raise Unsupported('place kind %s' % k)

    def read_path(s, val, path):
        for i, st in enumerate(path):
            if isinstance(st, int):
                if isinstance(val, Agg):
                    if st >= len(val.f): raise Unsupported('field index out of range on %s' % val.kind)
                    val = val.f[st]
                else:
                    raise Unsupported('field of %r' % (type(val),))
            elif st[0] == 'v':
                if not isinstance(val, EnumV): raise Unsupported('downcast of %r' % (val,))
                if st[1] not in val.pay: raise PathDead('downcast to absent variant ' + st[1])
                val = Agg('variant', val.pay[st[1]])
            elif st[0] == 'i':
                if isinstance(val, AbsArr):
                    return s.fresh_real('absread')
                if not isinstance(val, Arr): raise Unsupported('index of %r' % (type(val),))
                idx = st[1]
                if not is_sym(idx):
                    if idx < 0 or idx >= len(val.e): raise PathDead('index out of bounds')
                    val = val.e[idx]
                else:
                    rest = path[i + 1:]
                    outv = s.read_path(val.e[-1], rest)
                    for k in range(len(val.e) - 2, -1, -1):
                        outv = merge_val(idx == k, s.read_path(val.e[k], rest), outv)
                    return outv
        return val

    def write_path(s, val, path, new):
        if not path: return new
        st, rest = path[0], path[1:]
        if isinstance(st, int):
            if not isinstance(val, Agg): raise Unsupported('field write on %r' % (type(val),))
            f = list(val.f); f[st] = s.write_path(f[st], rest, new)
            return Agg(val.kind, f, val.names)
        if st[0] == 'v':
            if not isinstance(val, EnumV): raise Unsupported('downcast write')
            pay = dict(val.pay)
            inner = s.write_path(Agg('variant', pay.get(st[1], ())), rest, new)
            pay[st[1]] = inner.f
            return EnumV(val.ty, val.discr, pay)
        if st[0] == 'i':
            if isinstance(val, AbsArr): return val
            if not isinstance(val, Arr): raise Unsupported('index write on %r' % (type(val),))
            idx = st[1]
            e = list(val.e)
            if not is_sym(idx):
                if idx < 0 or idx >= len(e): raise PathDead('index out of bounds (write)')
                e[idx] = s.write_path(e[idx], rest, new)
            else:
                for k in range(len(e)):
                    e[k] = merge_val(idx == k, s.write_path(e[k], rest, new), e[k])
            return Arr(e)
        raise Unsupported('path step %r' % (st,))

    def read_place(s, fr, pl):
        if pl[0] == 'local':
            v = s.heap.get(('L', fr, pl[1]))
            if v is None: raise Unsupported('read of unset local _%d' % pl[1])
            return v
        oid, path, lo, hi = s.resolve(fr, pl)
        if oid not in s.heap: raise Unsupported('dangling %r' % (oid,))
        return s.read_path(s.heap[oid], path)

    def write_place(s, fr, pl, val):
        if pl[0] == 'local':
            s.heap[('L', fr, pl[1])] = val
            return
        oid, path, lo, hi = s.resolve(fr, pl)
        if oid not in s.heap:
            if not path: s.heap[oid] = val; return
            raise Unsupported('write through dangling %r' % (oid,))
        s.heap[oid] = s.write_path(s.heap[oid], path, val)

    def deref_read(s, p):
        if not isinstance(p, Ptr): raise Unsupported('deref_read of %r' % (p,))
        return s.read_path(s.heap[p.oid], p.path)

    def deref_write(s, p, val):
        s.heap[p.oid] = s.write_path(s.heap[p.oid], p.path, val)

    def slice_elems(s, p):
        """concrete list of element pointers of a slice pointer"""
        if not isinstance(p, Ptr) or p.lo is None: raise Unsupported('not a slice pointer: %r' % (p,))
        if is_sym(p.lo) or is_sym(p.hi): raise Unsupported('slice with symbolic bounds')
        return [Ptr(p.oid, p.path + (('i', k),)) for k in range(p.lo, p.hi)]

    # ---- operands / rvalues
    def operand(s, fr, txt):
        txt = txt.strip()
        if txt.startswith('no_retag '): txt = txt[9:]
        if txt.startswith('copy ') or txt.startswith('move '):
            return s.read_place(fr, s.parse_place(txt[5:]))
        if txt.startswith('const '):
            return s.const(txt[6:].strip())
        if '::' in txt and re.fullmatch(r'[\w:<> ,&\[\]\']+', txt):          # a function item passed as a value
            return Agg('fnitem', (txt,))
        raise Unsupported('operand ' + txt)

    def const(s, c):
        m = re.fullmatch(r'(-?[\d.]+(?:[eE][-+]?\d+)?)f64', c)
        if m: return Fraction(float(m.group(1)))
        m = re.fullmatch(r'(-?\d+)_(usize|isize|u64|i64|u32|i32|u8|i8|u16|i16|u128|i128)', c)
        if m: return int(m.group(1))
        if c == 'true': return True
        if c == 'false': return False
        if c == '()': return UNIT
        if c.endswith('f64>::INFINITY') or c.endswith('::INFINITY'): return BIG
        if c.endswith('::NEG_INFINITY'): return -BIG
        if c.endswith('f64::MAX') or c.endswith('f64>::MAX'): return Fraction(2) ** 1024 - Fraction(2) ** 971
        if c.endswith('f64::MIN') or c.endswith('f64>::MIN'): return -(Fraction(2) ** 1024 - Fraction(2) ** 971)
        if c.endswith('f64>::EPSILON') or c.endswith('f64::EPSILON'): return Fraction(1, 2 ** 52)
        if c.endswith('usize::MAX') or c.endswith('usize>::MAX'): return 2 ** 64 - 1
        if c.endswith('::NAN'): raise Unsupported('NaN constant')
        if c.startswith('"') or c.startswith('b"'): return ('str', c)
        m = re.fullmatch(r'ZeroSized: \{closure@([^}]*)\}', c)
        if m: return Agg('{closure@%s}' % m.group(1), ())
        if re.fullmatch(r'[\w:<> ,&\[\]]+::\w+(::<.*>)?', c) and ('::' in c):
            return Agg('fnitem', (c,))
        raise Unsupported('const ' + c)

    def binop(s, op, a, b):
        a, b = conc(a), conc(b)
        sym = is_sym(a) or is_sym(b)
        fl = is_float(a) or is_float(b)
        if op in ('AddWithOverflow', 'SubWithOverflow', 'MulWithOverflow'):
            base = {'AddWithOverflow': 'Add', 'SubWithOverflow': 'Sub', 'MulWithOverflow': 'Mul'}[op]
            r = s.binop(base, a, b)
            mt = re.match(r'\((u8|u16|u32|u64|usize|u128|i8|i16|i32|i64|isize)', getattr(s, 'dest_type', '') or '')
            ty = mt.group(1) if mt else 'usize'
            bits = {'u8': 8, 'u16': 16, 'u32': 32, 'u64': 64, 'usize': 64, 'u128': 128, 'i8': 8, 'i16': 16, 'i32': 32, 'i64': 64, 'isize': 64}[ty]
            lo_, hi_ = (-(2 ** (bits - 1)), 2 ** (bits - 1)) if ty.startswith('i') else (0, 2 ** bits)
            if is_sym(r):
                ov = z3.Or(r >= hi_, r < lo_)
            else:
                ov = (r >= hi_ or r < lo_)
            return Agg('tuple', (r, ov))
        if op.endswith('Unchecked'): op = op[:-9]
        if isinstance(a, bool) or isinstance(b, bool) or (is_sym(a) and z3.is_bool(a)) or (is_sym(b) and z3.is_bool(b)):
            if op == 'BitAnd': return conc(z3.simplify(z3.And(to_z3(a), to_z3(b)))) if sym else (a and b)
            if op == 'BitOr': return conc(z3.simplify(z3.Or(to_z3(a), to_z3(b)))) if sym else (a or b)
            if op == 'BitXor': return conc(z3.simplify(z3.Xor(to_z3(a), to_z3(b)))) if sym else (a != b)
            if op == 'Eq': return conc(z3.simplify(to_z3(a) == to_z3(b))) if sym else (a == b)
            if op == 'Ne': return conc(z3.simplify(to_z3(a) != to_z3(b))) if sym else (a != b)
            raise Unsupported('bool binop ' + op)
        if sym:
            if fl: a, b = R(a), R(b)
            else: a, b = to_z3(a), to_z3(b)
        if op == 'Add': r = a + b
        elif op == 'Sub': r = a - b
        elif op == 'Mul': r = a * b
        elif op == 'Div':
            if fl:
                cur = s.stack[-1] if s.stack else '?'
                if sym:
                    s.divs.append((s.pc_term(), b, cur))
                    r = a / b
                else:
                    if b == 0:
                        s.divs.append((s.pc_term(), b, cur))
                        raise PathDead('concrete float division by zero (NaN/inf)')
                    r = a / b
            else:
                if sym: r = a / b
                else:
                    if b == 0: raise PathDead('integer division by zero')
                    r = a // b
        elif op == 'Rem':
            if fl: raise Unsupported('float remainder')
            r = a % b
        elif op == 'Lt': r = a < b
        elif op == 'Le': r = a <= b
        elif op == 'Gt': r = a > b
        elif op == 'Ge': r = a >= b
        elif op == 'Eq': r = a == b
        elif op == 'Ne': r = a != b
        elif op == 'Cmp': raise Unsupported('three-way compare')
        else: raise Unsupported('binop ' + op)
        if sym:
            r = conc(z3.simplify(r)) if op in ('Lt', 'Le', 'Gt', 'Ge', 'Eq', 'Ne') else r
        return r

    def rvalue(s, fr, txt):
        txt = txt.strip()
        if txt.startswith('no_retag '): txt = txt[9:]
        m = _RV_CALLLIKE.fullmatch(txt)
        if m:
            op, args = m.group(1), m.group(2)
            if op in _BINOPS:
                a, b = [s.operand(fr, x) for x in split_top(args)]
                return s.binop(op, a, b)
            if op == 'PtrMetadata':
                p = s.operand(fr, args)
                if not isinstance(p, Ptr) or p.lo is None: raise Unsupported('PtrMetadata of %r' % (p,))
                return p.hi - p.lo
            if op == 'discriminant':
                v = s.read_place(fr, s.parse_place(args))
                if not isinstance(v, EnumV): raise Unsupported('discriminant of %r' % (v,))
                return v.discr
            if op == 'Not':
                v = s.operand(fr, args)
                if is_sym(v): return conc(z3.simplify(z3.Not(v)))
                if isinstance(v, bool): return not v
                raise Unsupported('bitwise Not on integer')
            if op == 'Neg':
                v = s.operand(fr, args)
                return -v
            if op == 'Len':
                p = s.resolve(fr, s.parse_place(args))
                v = s.read_path(s.heap[p[0]], p[1])
                if p[2] is not None: return p[3] - p[2]
                if isinstance(v, Arr): return len(v.e)
                raise Unsupported('Len')
        m = _RV_CAST.fullmatch(txt)
        if m:
            v = s.operand(fr, m.group(1)); kind = m.group(3)
            if kind == 'IntToFloat':
                return Fraction(v) if not is_sym(v) else z3.ToReal(v)
            if kind == 'IntToInt':
                tgt = m.group(2).strip()
                bits = {'u8': 8, 'u16': 16, 'u32': 32}.get(tgt)
                if bits and not isinstance(v, bool):
                    if is_sym(v): return v % (2 ** bits)
                    if isinstance(v, int): return v % (2 ** bits)
                return v
            if kind in ('Transmute', 'PtrToPtr', 'IntToInt', 'FloatToFloat') or kind.startswith('PointerCoercion'):
                while isinstance(v, Agg) and len(v.f) == 1 and kind == 'Transmute' and v.kind in ('NonNull', 'Unique'):
                    v = v.f[0]
                return v
            raise Unsupported('cast ' + kind)
        if txt.startswith('&raw '):
            ptxt = re.sub(r'^&raw (const|mut) ', '', txt)
            oid, path, lo, hi = s.resolve(fr, s.parse_place(ptxt))
            return Ptr(oid, path, lo, hi)
        if txt.startswith('&'):
            ptxt = re.sub(r"^&(?:'\w+ )?(?:mut )?", '', txt)
            oid, path, lo, hi = s.resolve(fr, s.parse_place(ptxt))
            return Ptr(oid, path, lo, hi)
        if txt.startswith('copy ') or txt.startswith('move ') or txt.startswith('const '):
            return s.operand(fr, txt)
        m = re.fullmatch(r'(\{closure@[^}]*\}) \{ (.*) \}', txt)
        if m:
            vals = [s.operand(fr, f.split(': ', 1)[1]) for f in split_top(m.group(2))]
            return Agg(m.group(1), vals)
        if txt in ('Less', 'Equal', 'Greater'):
            return EnumV('Ordering', {'Less': -1, 'Equal': 0, 'Greater': 1}[txt], {txt: ()})
        # struct aggregate  Name { f: op, .. }
        m = re.fullmatch(r'([\w:<>, &\[\]\']+?) \{ (.*) \}', txt)
        if m:
            kind = short_type(m.group(1))
            names, vals = [], []
            for f in split_top(m.group(2)):
                n, o = f.split(': ', 1)
                names.append(n); vals.append(s.operand(fr, o))
            s.struct_fields[kind] = tuple(names)
            return Agg(kind, vals, tuple(names))
        m = re.fullmatch(r'([\w:<>, &\[\]\']+?) \{ *\}', txt)
        if m: return Agg(short_type(m.group(1)), ())
        # enum variant  Path::<..>::Variant(ops)  /  Path::Variant
        m = re.fullmatch(r'(.+)::(\w+)\((.*)\)', txt)
        if m and m.group(2)[0].isupper():
            ty = short_type(re.sub(r'::<.*>$', '', m.group(1)))
            return s.make_enum(ty, m.group(2), [s.operand(fr, x) for x in split_top(m.group(3))])
        m = re.fullmatch(r'(.+)::(\w+)', txt)
        if m and m.group(2)[0].isupper() and not txt.startswith('const'):
            ty = short_type(re.sub(r'::<.*>$', '', m.group(1)))
            return s.make_enum(ty, m.group(2), [])
        if txt.startswith('(') and txt.endswith(')'):
            return Agg('tuple', [s.operand(fr, x) for x in split_top(txt[1:-1])])
        if txt.startswith('[') and txt.endswith(']'):
            if ';' in txt:
                e, n = txt[1:-1].rsplit(';', 1)
                v = s.operand(fr, e); n = int(re.sub(r'_usize|const ', '', n).strip())
                return Arr([v] * n)
            return Arr([s.operand(fr, x) for x in split_top(txt[1:-1])])
        raise Unsupported('rvalue ' + txt)

    def make_enum(s, ty, variant, fields):
        vs = s.mir.enum_variants.get(ty)
        if vs is None or variant not in vs: raise Unsupported('enum %s::%s' % (ty, variant))
        return EnumV(ty, vs.index(variant), {variant: tuple(fields)})

    # ---- function execution
    def call_impl(s, ty, tr, meth, args):
        fn = s.mir.lookup(ty, tr, meth)
        if fn is None: raise Unsupported('no crate function %s / %s / %s' % (ty, tr, meth))
        return s.run(fn, args)

    def run(s, fn, args):
        if fn.ipdom is None: compute_ipdom(fn)
        s.called[fn.name] = s.called.get(fn.name, 0) + 1
        s.fid += 1
        fr = s.fid
        if len(args) != fn.nparams: raise Unsupported('arity mismatch calling ' + fn.name)
        for i, v in enumerate(args): s.heap[('L', fr, i + 1)] = v
        s.stack.append(fn.name)
        try:
            s.run_region(fn, fr, 0, 'EXIT')
            ret = s.heap.get(('L', fr, 0), UNIT)
        finally:
            s.stack.pop()
            for k in [k for k in s.heap if k[0] == 'L' and k[1] == fr]:
                del s.heap[k]
        return ret

    def run_region(s, fn, fr, bb, stop):
        """execute from block bb until control reaches `stop` (not executed) or the function returns"""
        while True:
            if bb == stop: return
            s.fuel -= 1
            if s.fuel <= 0: raise Unsupported('fuel exhausted (unbounded loop?) in ' + fn.name)
            lines = fn.blocks[bb]
            for line in lines[:-1]:
                s.statement(fn, fr, line)
            t = lines[-1]
            if t == 'return':
                if stop != 'EXIT': raise Unsupported('return before join point')
                return
            if t.startswith('unreachable'):
                raise PathDead('unreachable')
            m = _T_GOTO.fullmatch(t)
            if m: bb = int(m.group(1)); continue
            m = _T_SWITCH.fullmatch(t)
            if m:
                bb = s.switch(fn, fr, bb, m.group(1), m.group(2), stop)
                if bb is None: return
                continue
            m = _T_ASSERT.fullmatch(t)
            if m:
                neg, cond_txt, msg, tgt = m.group(1), m.group(2), m.group(3), int(m.group(4))
                v = conc(s.operand(fr, cond_txt))
                if neg: v = z3not(v) if is_sym(v) else (not v)
                v = conc(v)
                if is_sym(v):
                    s.panics.append((z3.And(s.pc_term(), z3.Not(v)), msg, fn.name))
                    s.nopanic.append(z3.Implies(s.pc_term(), v))
                elif not v:
                    s.panics.append((s.pc_term(), msg, fn.name))
                    raise PathDead('assert failed: ' + msg)
                bb = tgt; continue
            m = _parse_call(t)
            if m:
                dest, callee, args, tgt = m
                argv = [s.operand(fr, x) for x in split_top(args)]
                r = s.call(fr, callee.strip(), argv)
                s.write_place(fr, s.parse_place(dest), r)
                if tgt is None: raise PathDead('diverging call')
                bb = int(tgt); continue
            m = _T_DROP.fullmatch(t)
            if m: bb = int(m.group(1)); continue
            raise Unsupported('terminator: ' + t)

    def statement(s, fn, fr, line):
        if line.startswith(('StorageLive', 'StorageDead', 'nop', 'PlaceMention', 'FakeRead', 'Retag',
                            'AscribeUserType', 'Coverage', 'ConstEvalCounter', 'BackwardIncompatibleDropHint')):
            return
        m = re.fullmatch(r'discriminant\((.*)\) = (\d+)', line)
        if m:
            pl = s.parse_place(m.group(1)); v = s.read_place(fr, pl)
            s.write_place(fr, pl, EnumV(v.ty, int(m.group(2)), v.pay)); return
        i = line.find(' = ')
        if i < 0: raise Unsupported('statement ' + line)
        dest, rv = line[:i], line[i + 3:]
        md = re.fullmatch(r'_(\d+)', dest.strip())
        s.dest_type = fn.ltypes.get(int(md.group(1)), '') if (md and getattr(fn, 'ltypes', None)) else ''
        v = s.rvalue(fr, rv)
        s.write_place(fr, s.parse_place(dest), v)

    def switch(s, fn, fr, bb, optxt, targets, stop):
        v = conc(s.operand(fr, optxt))
        tg = []
        other = None
        for t in split_top(targets):
            k, d = t.split(': ')
            if k == 'otherwise': other = int(d[2:])
            else: tg.append((int(k), int(d[2:])))
        if not is_sym(v):
            iv = int(v)
            for k, d in tg:
                if k == iv: return d
            if other is None: raise PathDead('switch without target')
            return other
        # symbolic: fork, run every feasible branch to the join point, merge
        conds = []
        if z3.is_bool(v):
            for k, d in tg: conds.append((z3.Not(v) if k == 0 else v, d))
            if other is not None:
                ks = {k for k, _ in tg}
                if ks == {0}: conds.append((v, other))
                elif ks == {1}: conds.append((z3.Not(v), other))
        else:
            for k, d in tg: conds.append((v == k, d))
            if other is not None: conds.append((z3.And(*[v != k for k, _ in tg]) if tg else z3.BoolVal(True), other))
        s.branches += 1
        join = fn.ipdom[bb]
        # a join beyond the current region's stop cannot happen for structured MIR; guard anyway
        base_heap, base_pc = s.heap, s.pc
        results = []
        for c, d in conds:
            c = z3.simplify(c)
            if z3.is_false(c): continue
            s.heap = base_heap; s.pc = base_pc
            if not z3.is_true(c) and not s.feasible(c): continue
            s.heap = dict(base_heap); s.pc = base_pc + [c]
            try:
                s.run_region(fn, fr, d, join)
                results.append((c, s.heap))
            except PathDead:
                pass
        s.pc = base_pc
        if not results:
            s.heap = base_heap
            raise PathDead('all branches dead')
        heap = results[-1][1]
        for c, h in reversed(results[:-1]):
            heap = s.merge_heaps(c, h, heap)
        s.heap = heap
        if join == 'EXIT':
            if stop != 'EXIT': raise Unsupported('join at EXIT inside a region')
            return None
        return join

    def merge_heaps(s, c, a, b):
        out = {}
        for k in set(a) | set(b):
            va, vb = a.get(k), b.get(k)
            if va is vb: out[k] = va
            elif va is None: out[k] = vb
            elif vb is None: out[k] = va
            else: out[k] = merge_val(c, va, vb)
        return out

    def call_callable(s, f, args):
        """apply a closure value or fn item to a list of arguments"""
        if isinstance(f, Agg) and f.kind == 'fnitem':
            return s.call(None, f.f[0], list(args))
        if isinstance(f, Agg) and f.kind.startswith('{closure@'):
            fn = s.mir.closures.get(f.kind[len('{closure@'):-1])
            if fn is None: raise Unsupported('closure body not found: ' + f.kind)
            if fn.ptypes[0].startswith('&'):
                root = s.new_root(f, 'closure')
                try:
                    return s.run(fn, [root] + list(args))
                finally:
                    s.heap.pop(root.oid, None)
            return s.run(fn, [f] + list(args))
        raise Unsupported('not callable: %r' % (f,))

    # ---- calls
    def call(s, fr, callee, a):
        from . import mirlib
        r = mirlib.call(s, fr, callee, a)
        return r


# ----------------------------------------------------------------------------- parsing helpers
_PLACE_CACHE = {}
_BINOPS = {'Add', 'Sub', 'Mul', 'Div', 'Rem', 'Lt', 'Le', 'Gt', 'Ge', 'Eq', 'Ne', 'BitAnd', 'BitOr', 'BitXor',
           'AddWithOverflow', 'SubWithOverflow', 'MulWithOverflow', 'AddUnchecked', 'SubUnchecked',
           'MulUnchecked', 'Shl', 'Shr', 'Cmp', 'Offset'}
_RV_CALLLIKE = re.compile(r'(\w+)\((.*)\)')
_RV_CAST = re.compile(r'(.*) as (.*) \(([\w(), :]+)\)')
_T_GOTO = re.compile(r'goto -> bb(\d+)')
_T_SWITCH = re.compile(r'switchInt\((.*)\) -> \[(.*)\]')
_T_ASSERT = re.compile(r'assert\((!?)((?:copy|move|const) [^,]*), (".*?")(?:, .*)?\) -> \[success: bb(\d+), unwind[^\]]*\]')
_T_CALL = re.compile(r'(.*?) = (.*?)\((.*)\) -> (?:\[return: bb(\d+), unwind[^\]]*\]|unwind.*)')
_T_DROP = re.compile(r'drop\(.*\) -> \[return: bb(\d+), unwind[^\]]*\]')


def _parse_call(t):
    """'dest = callee(args) -> [return: bbN, unwind ..]' with parentheses allowed inside the callee's generic arguments"""
    m = re.search(r' -> (?:\[return: bb(\d+), unwind[^\]]*\]|unwind.*)$', t)
    if not m: return None
    head = t[:m.start()]
    i = head.find(' = ')
    if i < 0 or not head.endswith(')'): return None
    dest, rest = head[:i], head[i + 3:]
    depth = 0
    for j in range(len(rest) - 1, -1, -1):
        ch = rest[j]
        if ch == ')': depth += 1
        elif ch == '(':
            depth -= 1
            if depth == 0:
                return dest, rest[:j], rest[j + 1:-1], m.group(1)
    return None


def _parse_place(txt):
    m = re.fullmatch(r'_(\d+)', txt)
    if m: return ('local', int(m.group(1)))
    m = re.fullmatch(r'(.*)\[_(\d+)\]', txt)
    if m and _balanced(m.group(1)): return ('index', _parse_place(m.group(1)), int(m.group(2)))
    m = re.fullmatch(r'(.*)\[(\d+) of (\d+)\]', txt)
    if m and _balanced(m.group(1)): return ('constindex', _parse_place(m.group(1)), int(m.group(2)))
    if txt.startswith('(*') and txt.endswith(')') and _balanced(txt[2:-1]):
        return ('deref', _parse_place(txt[2:-1]))
    if txt.startswith('(') and txt.endswith(')'):
        inner = txt[1:-1]
        depth = 0
        for i, ch in enumerate(inner):
            if ch in '([': depth += 1
            elif ch in ')]': depth -= 1
            elif ch == ':' and depth == 0 and inner[i + 1:i + 2] == ' ':
                left = inner[:i]
                j = left.rfind('.')
                return ('field', _parse_place(left[:j]), int(left[j + 1:]))
        m = re.fullmatch(r'(.*) as (\w+)', inner)
        if m: return ('downcast', _parse_place(m.group(1)), m.group(2))
    if txt.startswith('*'):
        return ('deref', _parse_place(txt[1:]))
    raise Unsupported('place ' + txt)


def _balanced(t):
    d = 0
    for ch in t:
        if ch in '([': d += 1
        elif ch in ')]':
            d -= 1
            if d < 0: return False
    return d == 0
