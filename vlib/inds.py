"""Indicator table shared by engine R, the native replay driver and the Kani harness generator."""
from fractions import Fraction
from .mirsym import Agg, EnumV, Ptr, Executor, Unsupported, PathDead, is_sym

# short name -> description.  np = number of usize periods of new(); mult = trailing f64 multiplier;
# scalar = implements Next<f64>; out = names of the output fields; window = kind of state
IND = {
    'SMA': dict(ty='SimpleMovingAverage', np=1, mult=False, scalar=True, out=['v'], default=[9], period=True),
    'EMA': dict(ty='ExponentialMovingAverage', np=1, mult=False, scalar=True, out=['v'], default=[9], period=True),
    'WMA': dict(ty='WeightedMovingAverage', np=1, mult=False, scalar=True, out=['v'], default=[9], period=True),
    'SD': dict(ty='StandardDeviation', np=1, mult=False, scalar=True, out=['v'], default=[9], period=True),
    'MAD': dict(ty='MeanAbsoluteDeviation', np=1, mult=False, scalar=True, out=['v'], default=[9], period=True),
    'RSI': dict(ty='RelativeStrengthIndex', np=1, mult=False, scalar=True, out=['v'], default=[14], period=True),
    'MIN': dict(ty='Minimum', np=1, mult=False, scalar=True, out=['v'], default=[14], period=True),
    'MAX': dict(ty='Maximum', np=1, mult=False, scalar=True, out=['v'], default=[14], period=True),
    'FAST_STOCH': dict(ty='FastStochastic', np=1, mult=False, scalar=True, out=['v'], default=[14], period=True),
    'SLOW_STOCH': dict(ty='SlowStochastic', np=2, mult=False, scalar=True, out=['v'], default=[14, 3], period=False),
    'TRUE_RANGE': dict(ty='TrueRange', np=0, mult=False, scalar=True, out=['v'], default=[], period=False),
    'ATR': dict(ty='AverageTrueRange', np=1, mult=False, scalar=True, out=['v'], default=[14], period=True),
    'MACD': dict(ty='MovingAverageConvergenceDivergence', np=3, mult=False, scalar=True,
                 out=['macd', 'signal', 'histogram'], default=[12, 26, 9], period=False),
    'PPO': dict(ty='PercentagePriceOscillator', np=3, mult=False, scalar=True,
                out=['ppo', 'signal', 'histogram'], default=[12, 26, 9], period=False),
    'CCI': dict(ty='CommodityChannelIndex', np=1, mult=False, scalar=False, out=['v'], default=[20], period=True),
    'ER': dict(ty='EfficiencyRatio', np=1, mult=False, scalar=True, out=['v'], default=[14], period=True),
    'BB': dict(ty='BollingerBands', np=1, mult=True, scalar=True, out=['average', 'upper', 'lower'],
               default=[9], dmult=2.0, period=True),
    'CE': dict(ty='ChandelierExit', np=1, mult=True, scalar=False, out=['long', 'short'],
               default=[22], dmult=3.0, period=True),
    'KC': dict(ty='KeltnerChannel', np=1, mult=True, scalar=True, out=['average', 'upper', 'lower'],
               default=[10], dmult=2.0, period=True),
    'ROC': dict(ty='RateOfChange', np=1, mult=False, scalar=True, out=['v'], default=[9], period=True),
    'MFI': dict(ty='MoneyFlowIndex', np=1, mult=False, scalar=False, out=['v'], default=[14], period=True),
    'OBV': dict(ty='OnBalanceVolume', np=0, mult=False, scalar=False, out=['v'], default=[], period=False),
}
ALL = list(IND)
# which price field(s) the bar path of each indicator is documented to read
BAR_READS = {
    'SMA': 'c', 'EMA': 'c', 'WMA': 'c', 'SD': 'c', 'MAD': 'c', 'RSI': 'c', 'MACD': 'c', 'PPO': 'c', 'ER': 'c',
    'BB': 'c', 'ROC': 'c', 'MIN': 'l', 'MAX': 'h', 'FAST_STOCH': 'hlc', 'SLOW_STOCH': 'hlc', 'TRUE_RANGE': 'hlc',
    'ATR': 'hlc', 'KC': 'hlc', 'CE': 'hlc', 'CCI': 'hlc', 'MFI': 'hlcv', 'OBV': 'cv',
}
BAR_IDX = {'o': 0, 'h': 1, 'l': 2, 'c': 3, 'v': 4}


def outlist(v):
    if isinstance(v, Agg): return list(v.f)
    return [v]


class RInst:
    """an indicator instance living inside an Executor's heap"""

    def __init__(s, ex, name, ptr):
        s.ex, s.name, s.ptr, s.d = ex, name, ptr, IND[name]

    @staticmethod
    def new(ex, name, periods=(), mult=None):
        d = IND[name]
        args = list(periods)
        if d['mult']: args.append(mult)
        r = ex.call_impl(d['ty'], '', 'new', args)
        if isinstance(r, EnumV):                   # Result<Self>
            return r
        return r

    @staticmethod
    def create(ex, name, periods=(), mult=None):
        """new(..) expected to succeed; returns RInst"""
        r = RInst.new(ex, name, periods, mult)
        if isinstance(r, EnumV):
            if 'Ok' not in r.pay: raise PathDead('constructor returned Err')
            r = r.pay['Ok'][0]
        return RInst(ex, name, ex.new_root(r, name))

    @staticmethod
    def default(ex, name):
        r = ex.call_impl(IND[name]['ty'], 'Default', 'default', [])
        return RInst(ex, name, ex.new_root(r, name))

    def state(s):
        return s.ex.read_root(s.ptr)

    def next(s, x):
        return outlist(s.ex.call_impl(s.d['ty'], 'Next<f64>', 'next', [s.ptr, x]))

    def next_bar(s, bar, kind='AbstractBar'):
        """bar = (open, high, low, close, volume)"""
        bp = s.ex.new_root(Agg(kind, tuple(bar)), 'bar')
        try:
            return outlist(s.ex.call_impl(s.d['ty'], 'Next<&T>', 'next', [s.ptr, bp]))
        finally:
            s.ex.heap.pop(bp.oid, None)

    def feed(s, v):
        """scalar or 5-tuple"""
        if isinstance(v, (tuple, list)): return s.next_bar(v)
        return s.next(v)

    def reset(s):
        s.ex.call_impl(s.d['ty'], 'Reset', 'reset', [s.ptr])

    def clone(s):
        r = s.ex.call_impl(s.d['ty'], 'Clone', 'clone', [s.ptr])
        return RInst(s.ex, s.name, s.ex.new_root(r, s.name))

    def period(s):
        return s.ex.call_impl(s.d['ty'], 'Period', 'period', [s.ptr])

    def multiplier(s):
        return s.ex.call_impl(s.d['ty'], '', 'multiplier', [s.ptr])
