"""Solver layer of engine R: two-stage solving (UF-abstracted, then exact NRA), model extraction,
tolerance-aware obligations, vacuity witnesses."""
import time, os
from fractions import Fraction
import z3
from .mirsym import is_sym, R, conc, to_z3
from . import oracles as O

F = Fraction
BOUND = F(10) ** 12

_fmul = z3.Function('fmul', z3.RealSort(), z3.RealSort(), z3.RealSort())
_fdiv = z3.Function('fdiv', z3.RealSort(), z3.RealSort(), z3.RealSort())


def is_num(e):
    return z3.is_rational_value(e) or z3.is_int_value(e) or z3.is_algebraic_value(e)


def abstract_nl(e, cache):
    """replace products of two non-constant terms and divisions by a non-constant term by
    hash-consed uninterpreted applications (sound for unsat: the abstraction has more models)"""
    k = e.get_id()
    r = cache.get(k)
    if r is not None: return r
    if z3.is_app(e) and e.num_args() > 0:
        ch = [abstract_nl(c, cache) for c in e.children()]
        kind = e.decl().kind()
        if kind == z3.Z3_OP_MUL and z3.is_real(e):
            nums = [c for c in ch if is_num(c)]
            rest = [c for c in ch if not is_num(c)]
            if len(rest) >= 2:
                rest.sort(key=lambda t: t.get_id())
                acc = rest[0]
                for c in rest[1:]: acc = _fmul(acc, c)
                for c in nums: acc = c * acc
                r = acc
            else:
                r = e.decl()(*ch)
        elif kind == z3.Z3_OP_DIV and not is_num(ch[1]):
            r = _fdiv(ch[0], ch[1])
        elif kind == z3.Z3_OP_POWER:
            r = e.decl()(*ch)
        else:
            r = e.decl()(*ch)
    else:
        r = e
    cache[k] = r
    return r


class Stats:
    def __init__(s):
        s.queries = 0; s.unsat = 0; s.sat = 0; s.unknown = 0
        s.z3_s = 0.0; s.stage1 = 0; s.stage2 = 0; s.cvc5_s = 0.0; s.cvc5_checked = 0; s.cvc5_disagree = 0
        s.samples = []

    def merge(s, o):
        for k in ('queries', 'unsat', 'sat', 'unknown', 'z3_s', 'stage1', 'stage2', 'cvc5_s', 'cvc5_checked', 'cvc5_disagree'):
            setattr(s, k, getattr(s, k) + getattr(o, k))
        s.samples += o.samples[:2]

    def as_dict(s):
        return dict(queries=s.queries, unsat=s.unsat, sat=s.sat, unknown=s.unknown, z3_s=round(s.z3_s, 3),
                    stage1_uf_abstracted=s.stage1, stage2_exact_nra=s.stage2, cvc5_s=round(s.cvc5_s, 3),
                    cvc5_cross_checked=s.cvc5_checked, cvc5_disagreements=s.cvc5_disagree)


def _solve(cons, timeout_ms, seed):
    sol = z3.Solver()
    sol.set('timeout', int(timeout_ms))
    sol.set('random_seed', int(seed) % 10000)
    for c in cons: sol.add(c)
    t0 = time.time()
    r = sol.check()
    dt = time.time() - t0
    return r, (sol.model() if r == z3.sat else None), dt, sol


def solve(st, assumptions, bad, timeout_s=60, seed=0, want_model=True, label='', stages=(1, 2), dump=None):
    """is assumptions /\\ bad satisfiable?  -> ('unsat'|'sat'|'unknown', model or None)
    stage 1: nonlinear operations abstracted to UFs (unsat is conclusive, sat is not);
    stage 2: exact nonlinear real arithmetic."""
    st.queries += 1
    cons = [to_z3(a) for a in assumptions] + [to_z3(bad)]
    if 1 in stages:
        cache = {}
        acons = [abstract_nl(c, cache) for c in cons]
        r, m, dt, sol = _solve(acons, min(timeout_s, 60) * 1000, seed)
        st.z3_s += dt; st.stage1 += 1
        if r == z3.unsat:
            st.unsat += 1
            if len(st.samples) < 3 and label: st.samples.append({'query': label, 'stage': 'UF-abstracted', 'result': 'unsat', 's': round(dt, 3)})
            if dump: _dump(sol, dump)
            return 'unsat', None
    if 2 not in stages:
        st.unknown += 1
        return 'unknown', None
    r, m, dt, sol = _solve(cons, timeout_s * 1000, seed)
    st.z3_s += dt; st.stage2 += 1
    if dump: _dump(sol, dump)
    if r == z3.unsat:
        st.unsat += 1
        if len(st.samples) < 3 and label: st.samples.append({'query': label, 'stage': 'exact', 'result': 'unsat', 's': round(dt, 3)})
        return 'unsat', None
    if r == z3.sat:
        st.sat += 1
        return 'sat', m
    st.unknown += 1
    return 'unknown', None


def _dump(sol, path):
    os.makedirs(os.path.dirname(path), exist_ok=True)
    with open(path, 'w') as f:
        f.write('(set-logic ALL)\n' + sol.to_smt2())


def model_val(m, v):
    """value of a z3 Real/Int/Bool term under model m as Fraction/int/bool"""
    if not is_sym(v): return v
    e = m.eval(v, model_completion=True)
    if z3.is_true(e): return True
    if z3.is_false(e): return False
    if z3.is_int_value(e): return e.as_long()
    if z3.is_rational_value(e): return F(e.numerator_as_long(), e.denominator_as_long())
    if z3.is_algebraic_value(e):
        a = e.approx(40)
        return F(a.numerator_as_long(), a.denominator_as_long())
    raise ValueError('cannot evaluate %s -> %s' % (v, e))


def bounds(xs, lo=None, hi=None, bound=BOUND):
    cs = []
    for x in xs:
        if not is_sym(x): continue
        cs.append(x <= R(bound if hi is None else hi))
        cs.append(x >= R(-bound if lo is None else lo))
    return cs


def reals(prefix, n):
    return [z3.Real('%s%d' % (prefix, i)) for i in range(n)]


def bar_vars(prefix, n):
    return [tuple(z3.Real('%s%d_%s' % (prefix, i, f)) for f in 'ohlcv') for i in range(n)]


def valid_bar(b, positive=True):
    o, h, l, c, v = b
    cs = [l <= c, c <= h, l <= o, o <= h, v >= 0]
    if positive: cs.append(l > 0)
    return cs


def exceeds(diff, scale_terms, tol):
    """|diff| > tol * max(scale_terms)   (tol > 0)  as a conjunction"""
    ad = O.absv(diff)
    return z3.And(*[ad > R(tol) * R(s) for s in scale_terms]) if scale_terms else ad > R(tol)


def snap_model(assumptions, bad, xs, timeout_s=10, seed=0, denom=8, lim=4000):
    """look for a counterexample whose inputs are small dyadic rationals (exactly representable,
    so that native f64 arithmetic stays close to the exact one)"""
    ks = [z3.Int('snap!%d' % i) for i in range(len(xs))]
    cons = [to_z3(a) for a in assumptions] + [to_z3(bad)]
    for k, x in zip(ks, xs):
        cons += [x == z3.ToReal(k) / denom, k <= lim, k >= -lim]
    r, m, dt, _ = _solve(cons, timeout_s * 1000, seed)
    return m if r == z3.sat else None
