"""Solver layer of engine R: two-stage solving (UF-abstracted, then exact NRA), model extraction,
tolerance-aware obligations, vacuity witnesses."""
import time, os
from fractions import Fraction
import z3
from .mirsym import is_sym, R, conc, to_z3
from . import oracles as O

F = Fraction
BOUND = F(10) ** 12

_fmul = z3.Function('fmul', z3.RealSort(), z3.RealSort(), z3.RealSort())
_fdiv = z3.Function('fdiv', z3.RealSort(), z3.RealSort(), z3.RealSort())


def is_num(e):
    return z3.is_rational_value(e) or z3.is_int_value(e) or z3.is_algebraic_value(e)


def abstract_nl(e, cache):
    """replace products of two non-constant terms and divisions by a non-constant term by
    hash-consed uninterpreted applications (sound for unsat: the abstraction has more models)"""
    k = e.get_id()
    r = cache.get(k)
    if r is not None: return r
    if z3.is_app(e) and e.num_args() > 0:
        ch = [abstract_nl(c, cache) for c in e.children()]
        kind = e.decl().kind()
        if kind == z3.Z3_OP_MUL and z3.is_real(e):
            nums = [c for c in ch if is_num(c)]
            rest = [c for c in ch if not is_num(c)]
            if len(rest) >= 2:
                rest.sort(key=lambda t: t.get_id())
                acc = rest[0]
                for c in rest[1:]: acc = _fmul(acc, c)
                for c in nums: acc = c * acc
                r = acc
            else:
                r = e.decl()(*ch)
        elif kind == z3.Z3_OP_DIV and not is_num(ch[1]):
            r = _fdiv(ch[0], ch[1])
        elif kind == z3.Z3_OP_POWER:
            r = e.decl()(*ch)
        else:
            r = e.decl()(*ch)
    else:
        r = e
    cache[k] = r
    return r


def nl_lemmas(cache):
    """valid facts about real multiplication / division for every abstracted application"""
    out, seen = [], set()
    zero, one = z3.RealVal(0), z3.RealVal(1)
    def visit(e):
        k = e.get_id()
        if k in seen: return
        seen.add(k)
        if not z3.is_app(e): return
        for c in e.children(): visit(c)
        d = e.decl()
        if d.eq(_fmul):
            a, b = e.children()
            out.append(z3.Implies(z3.Or(a == zero, b == zero), e == zero))
            out.append(z3.Implies(z3.Or(z3.And(a > zero, b > zero), z3.And(a < zero, b < zero)), e > zero))
            out.append(z3.Implies(z3.Or(z3.And(a > zero, b < zero), z3.And(a < zero, b > zero)), e < zero))
            out.append(z3.Implies(a == one, e == b)); out.append(z3.Implies(b == one, e == a))
            out.append(z3.Implies(z3.Or(z3.And(a >= zero, b >= zero), z3.And(a <= zero, b <= zero)), e >= zero))
            out.append(z3.Implies(z3.Or(z3.And(a >= zero, b <= zero), z3.And(a <= zero, b >= zero)), e <= zero))
            if b.decl().eq(_fdiv) and z3.is_rational_value(b.children()[0]) and b.children()[0].numerator_as_long() == b.children()[0].denominator_as_long():
                dd = b.children()[1]
                out.append(z3.Implies(z3.And(a == dd, dd != zero), e == one))
            if a.decl().eq(_fdiv) and z3.is_rational_value(a.children()[0]) and a.children()[0].numerator_as_long() == a.children()[0].denominator_as_long():
                dd = a.children()[1]
                out.append(z3.Implies(z3.And(b == dd, dd != zero), e == one))
        elif d.eq(_fdiv):
            a, b = e.children()
            out.append(z3.Implies(z3.And(a == zero, b != zero), e == zero))
            out.append(z3.Implies(z3.And(a == b, b != zero), e == one))
            out.append(z3.Implies(z3.Or(z3.And(a > zero, b > zero), z3.And(a < zero, b < zero)), e > zero))
            out.append(z3.Implies(z3.Or(z3.And(a > zero, b < zero), z3.And(a < zero, b > zero)), e < zero))
            out.append(z3.Implies(b == one, e == a))
            out.append(z3.Implies(z3.Or(z3.And(a >= zero, b > zero), z3.And(a <= zero, b < zero)), e >= zero))
            out.append(z3.Implies(z3.Or(z3.And(a >= zero, b < zero), z3.And(a <= zero, b > zero)), e <= zero))
            out.append(z3.Implies(z3.And(b > zero, a <= b), e <= one)); out.append(z3.Implies(z3.And(b > zero, a >= -b), e >= -one))
            out.append(z3.Implies(z3.And(b < zero, a >= b), e <= one)); out.append(z3.Implies(z3.And(b < zero, a <= -b), e >= -one))
            out.append(z3.Implies(z3.And(b > zero, a >= b), e >= one)); out.append(z3.Implies(z3.And(b < zero, a <= b), e >= one))
    for v in list(cache.values()): visit(v)
    if SCALE_HINTS:
        divs = []
        seen2 = set()
        def collect(e):
            k = e.get_id()
            if k in seen2: return
            seen2.add(k)
            if z3.is_app(e):
                for c in e.children(): collect(c)
                if e.decl().eq(_fdiv): divs.append(e)
        for v in list(cache.values()): collect(v)
        if len(divs) <= 60:
            for i, f1 in enumerate(divs):
                for f2 in divs[i + 1:]:
                    a1, b1 = f1.children(); a2, b2 = f2.children()
                    for c in SCALE_HINTS:
                        cc = z3.Q(c.numerator, c.denominator)
                        out.append(z3.Implies(z3.And(a2 == cc * a1, b2 == cc * b1, b1 != zero), f2 == f1))
                        out.append(z3.Implies(z3.And(a1 == cc * a2, b1 == cc * b2, b2 != zero), f2 == f1))
    return out


SCALE_HINTS = []


class Stats:
    def __init__(s):
        s.queries = 0; s.unsat = 0; s.sat = 0; s.unknown = 0
        s.z3_s = 0.0; s.stage0 = 0; s.stage1 = 0; s.stage2 = 0; s.cvc5_s = 0.0; s.cvc5_checked = 0; s.cvc5_disagree = 0
        s.samples = []

    def merge(s, o):
        for k in ('queries', 'unsat', 'sat', 'unknown', 'z3_s', 'stage0', 'stage1', 'stage2', 'cvc5_s', 'cvc5_checked', 'cvc5_disagree'):
            setattr(s, k, getattr(s, k) + getattr(o, k))
        s.samples += o.samples[:2]

    def as_dict(s):
        return dict(queries=s.queries, unsat=s.unsat, sat=s.sat, unknown=s.unknown, z3_s=round(s.z3_s, 3),
                    stage0_normal_form=s.stage0, stage1_uf_abstracted=s.stage1, stage2_exact_nra=s.stage2, cvc5_s=round(s.cvc5_s, 3),
                    cvc5_cross_checked=s.cvc5_checked, cvc5_disagreements=s.cvc5_disagree)


def _solve(cons, timeout_ms, seed):
    sol = z3.Solver()
    sol.set('timeout', int(timeout_ms))
    sol.set('random_seed', int(seed) % 10000)
    for c in cons: sol.add(c)
    t0 = time.time()
    r = sol.check()
    dt = time.time() - t0
    return r, (sol.model() if r == z3.sat else None), dt, sol


def solve(st, assumptions, bad, timeout_s=60, seed=0, want_model=True, label='', stages=(0, 1, 2), dump=None):
    """is assumptions /\\ bad satisfiable?  -> ('unsat'|'sat'|'unknown', model or None)
    stage 1: nonlinear operations abstracted to UFs (unsat is conclusive, sat is not);
    stage 2: exact nonlinear real arithmetic."""
    st.queries += 1
    cons = [to_z3(a) for a in assumptions] + [to_z3(bad)]
    orig = list(cons)
    if 0 in stages or 1 in stages:
        try:
            t0 = time.time()
            cb = Canon().boolean(to_z3(bad))
            if not z3.is_false(cb):
                cx = Canon(reduce_sqrt=True)
                cb2 = cx.boolean(to_z3(bad))
                if z3.is_false(cb2) and cx.sqrt_side:
                    # the reduction fsqrt(x)^2 -> x is valid where x >= 0: show that no argument can be negative
                    side = z3.Or(*[a < 0 for a in cx.sqrt_side.values()])
                    cache = {}
                    acons = [abstract_nl(c, cache) for c in cons[:-1] + [side]]
                    rs, _, dts, _ = _solve(acons + nl_lemmas(cache), 20000, seed)
                    if rs == z3.unsat: cb = cb2
            st.z3_s += time.time() - t0
            if z3.is_false(cb):
                st.unsat += 1; st.stage0 += 1
                if len(st.samples) < 3 and label: st.samples.append({'query': label, 'stage': 'polynomial normal form', 'result': 'unsat (negated obligation normalises to false)'})
                return 'unsat', None
            cons[-1] = cb
        except (OverflowError, ValueError):
            cons = None
    if cons is None: cons = orig; orig = None if False else orig
    if 1 in stages:
        qcons = None
        try:
            qcons = orig[:-1] + [Canon(distribute=False).boolean(orig[-1])]
        except (OverflowError, ValueError):
            pass
        for variant in ((qcons, 'UF-abstracted (quotient normal form)'), (cons, 'UF-abstracted (polynomial normal form)'), (orig, 'UF-abstracted')):
            if variant[0] is None: continue
            cache = {}
            acons = [abstract_nl(c, cache) for c in variant[0]]
            acons += nl_lemmas(cache)
            r, m, dt, sol = _solve(acons, min(timeout_s, 45) * 1000, seed)
            st.z3_s += dt; st.stage1 += 1
            if r == z3.unsat:
                st.unsat += 1
                if len(st.samples) < 3 and label: st.samples.append({'query': label, 'stage': variant[1], 'result': 'unsat', 's': round(dt, 3)})
                if dump: _dump(sol, dump)
                if CVC5_SAMPLE and st.cvc5_checked < CVC5_SAMPLE: _cvc5_cross(st, sol, label)
                return 'unsat', None
    if 2 not in stages:
        st.unknown += 1
        return 'unknown', None
    r, m, dt, sol = _solve(orig if orig is not None else cons, timeout_s * 1000, seed)
    st.z3_s += dt; st.stage2 += 1
    if dump: _dump(sol, dump)
    if r == z3.unsat:
        st.unsat += 1
        if len(st.samples) < 3 and label: st.samples.append({'query': label, 'stage': 'exact', 'result': 'unsat', 's': round(dt, 3)})
        return 'unsat', None
    if r == z3.sat:
        st.sat += 1
        return 'sat', m
    st.unknown += 1
    return 'unknown', None


CVC5_SAMPLE = 2 if os.environ.get('VERIF_TIER') == 'thorough' or '--tier thorough' in ' '.join(__import__('sys').argv) else 0


def _cvc5_cross(st, sol, label):
    """independent solver on the same (UF-abstracted, linear) query; a disagreement is recorded and makes the family undecided"""
    import subprocess, tempfile
    try:
        with tempfile.NamedTemporaryFile('w', suffix='.smt2', delete=False) as f:
            f.write('(set-logic ALL)\n' + sol.to_smt2())
            path = f.name
        t0 = time.time()
        p = subprocess.run(['cvc5', '--lang', 'smt2', '--tlimit=20000', path], capture_output=True, text=True, timeout=40)
        st.cvc5_s += time.time() - t0
        out = p.stdout.strip().split('\n')[0] if p.stdout.strip() else ''
        os.unlink(path)
        if out == 'unsat': st.cvc5_checked += 1
        elif out == 'sat':
            st.cvc5_checked += 1; st.cvc5_disagree += 1
    except Exception:
        pass


def _dump(sol, path):
    os.makedirs(os.path.dirname(path), exist_ok=True)
    with open(path, 'w') as f:
        f.write('(set-logic ALL)\n' + sol.to_smt2())


def witness_sat(st, assumptions, wbad, real_vars, int_vars=(), seed=0, tries=12, timeout_s=10):
    """vacuity witness: is assumptions /\\ wbad satisfiable?  Inputs are fixed to random small dyadic values
    (the solver completes the rest: sqrt variables etc.); falls back to an unconstrained search."""
    import random, re
    rnd = random.Random(seed * 31 + 7)
    base = [to_z3(a) for a in assumptions] + [to_z3(wbad)]
    conj = z3.And(*base)
    for k in range(tries):
        sub = []
        bars = {}
        for x in real_vars:
            m = re.fullmatch(r'(.*)_([ohlcv])', str(x))
            if m: bars.setdefault(m.group(1), {})[m.group(2)] = x
            else: sub.append((x, z3.Q(rnd.randint(1, 64) if k % 2 == 0 else rnd.randint(-64, 64), rnd.choice([1, 2, 4]))))
        for b in bars.values():                      # a valid, positive bar
            lo = rnd.randint(1, 40); hi = lo + rnd.randint(0, 24)
            vals = {'l': lo, 'h': hi, 'o': rnd.randint(lo, hi), 'c': rnd.randint(lo, hi), 'v': rnd.randint(0, 50)}
            for f, x in b.items(): sub.append((x, z3.Q(vals[f], rnd.choice([1, 2, 4]) if False else 1)))
        for p in int_vars:
            sub.append((p, z3.IntVal(rnd.randint(1, 5))))
        g = z3.simplify(z3.substitute(conj, *sub))
        if z3.is_true(g): return True
        if z3.is_false(g): continue
        r, m, dt, _ = _solve([g], timeout_s * 1000, seed)
        st.z3_s += dt
        if r == z3.sat: return True
    r, m, dt, _ = _solve(base, 3 * timeout_s * 1000, seed)
    st.z3_s += dt
    return r == z3.sat


def model_val(m, v):
    """value of a z3 Real/Int/Bool term under model m as Fraction/int/bool"""
    if not is_sym(v): return v
    e = m.eval(v, model_completion=True)
    if z3.is_true(e): return True
    if z3.is_false(e): return False
    if z3.is_int_value(e): return e.as_long()
    if z3.is_rational_value(e): return F(e.numerator_as_long(), e.denominator_as_long())
    if z3.is_algebraic_value(e):
        a = e.approx(40)
        return F(a.numerator_as_long(), a.denominator_as_long())
    raise ValueError('cannot evaluate %s -> %s' % (v, e))


def bounds(xs, lo=None, hi=None, bound=BOUND):
    cs = []
    for x in xs:
        if not is_sym(x): continue
        cs.append(x <= R(bound if hi is None else hi))
        cs.append(x >= R(-bound if lo is None else lo))
    return cs


def reals(prefix, n):
    return [z3.Real('%s%d' % (prefix, i)) for i in range(n)]


def bar_vars(prefix, n):
    return [tuple(z3.Real('%s%d_%s' % (prefix, i, f)) for f in 'ohlcv') for i in range(n)]


def valid_bar(b, positive=True):
    o, h, l, c, v = b
    cs = [l <= c, c <= h, l <= o, o <= h, v >= 0]
    if positive: cs.append(l > 0)
    return cs


def exceeds(diff, scale_terms, tol):
    """|diff| > tol * max(scale_terms)   (tol > 0)  as a conjunction"""
    ad = O.absv(diff)
    return z3.And(*[ad > R(tol) * R(s) for s in scale_terms]) if scale_terms else ad > R(tol)


def snap_model(assumptions, bad, xs, timeout_s=10, seed=0, denom=8, lim=4000):
    """look for a counterexample whose inputs are small dyadic rationals (exactly representable,
    so that native f64 arithmetic stays close to the exact one)"""
    ks = [z3.Int('snap!%d' % i) for i in range(len(xs))]
    cons = [to_z3(a) for a in assumptions] + [to_z3(bad)]
    for k, x in zip(ks, xs):
        cons += [x == z3.ToReal(k) / denom, k <= lim, k >= -lim]
    r, m, dt, _ = _solve(cons, timeout_s * 1000, seed)
    return m if r == z3.sat else None


# ------------------------------------------------------------------------------------------------
# Stage 0: polynomial normal form.  Real-valued terms are rewritten into a canonical sum of monomials
# over "atoms" (variables, ite terms, reciprocals 1/d of non-constant denominators, sqrt variables,
# ToReal(int term)), so that algebraically identical computations of different shape become the
# *same* z3 term and `impl != ref` collapses to false before any search.  a/b is rewritten to
# a * (1/b): the two differ only where b = 0, which z3 leaves unspecified anyway (zero denominators
# are the subject of separate queries).
class Canon:
    def __init__(s, max_terms=20000, distribute=True, reduce_sqrt=False):
        s.pc, s.bc, s.max_terms, s.distribute = {}, {}, max_terms, distribute
        s.reduce_sqrt, s.sqrt_side = reduce_sqrt, {}
        s.atoms = {}

    def atom(s, e):
        s.atoms[e.get_id()] = e
        return {((e.get_id(), 1),): F(1)}

    @staticmethod
    def _add(a, b, sign=1):
        r = dict(a)
        for m, c in b.items():
            v = r.get(m, 0) + sign * c
            if v == 0: r.pop(m, None)
            else: r[m] = v
        return r

    def _mul(s, a, b):
        if len(a) * len(b) > s.max_terms: raise OverflowError('polynomial too large')
        r = {}
        for m1, c1 in a.items():
            for m2, c2 in b.items():
                d = dict(m1)
                for k, p in m2: d[k] = d.get(k, 0) + p
                m = tuple(sorted(d.items()))
                v = r.get(m, 0) + c1 * c2
                if v == 0: r.pop(m, None)
                else: r[m] = v
        return r

    def poly(s, e):
        k = e.get_id()
        r = s.pc.get(k)
        if r is not None: return r
        r = s._poly(e)
        if s.reduce_sqrt: r = s._reduce_sqrt(r)
        s.pc[k] = r
        return r

    def _reduce_sqrt(s, p):
        """fsqrt(x)^2 -> x (valid where x >= 0: the arguments are collected in sqrt_side and must be shown non-negative)"""
        out = None
        for m, c in p.items():
            hit = [(k, pw) for k, pw in m if pw >= 2 and z3.is_app(s.atoms[k]) and s.atoms[k].decl().name() == 'fsqrt']
            if not hit:
                if out is not None: out = s._add(out, {m: c})
                continue
            if out is None:
                out = {mm: cc for mm, cc in p.items() if mm != m and not any(pw >= 2 and z3.is_app(s.atoms[k]) and s.atoms[k].decl().name() == 'fsqrt' for k, pw in mm)}
                # (re-add below every monomial with a hit, reduced)
                rest = [(mm, cc) for mm, cc in p.items() if any(pw >= 2 and z3.is_app(s.atoms[k]) and s.atoms[k].decl().name() == 'fsqrt' for k, pw in mm)]
                for mm, cc in rest:
                    term = {tuple((k, pw) for k, pw in mm if not (pw >= 2 and z3.is_app(s.atoms[k]) and s.atoms[k].decl().name() == 'fsqrt')): cc}
                    for k, pw in mm:
                        a = s.atoms[k]
                        if pw >= 2 and z3.is_app(a) and a.decl().name() == 'fsqrt':
                            arg = a.children()[0]
                            s.sqrt_side[arg.get_id()] = arg
                            ap = s.poly(arg)
                            for _ in range(pw // 2): term = s._mul(term, ap)
                            if pw % 2: term = s._mul(term, {((k, 1),): F(1)})
                    out = s._add(out, term)
                return out
        return p if out is None else out

    def _poly(s, e):
        if z3.is_rational_value(e): return {(): F(e.numerator_as_long(), e.denominator_as_long())} if e.numerator_as_long() != 0 else {}
        if z3.is_int_value(e): return {(): F(e.as_long())} if e.as_long() != 0 else {}
        if not z3.is_app(e) or e.num_args() == 0: return s.atom(e)
        kind = e.decl().kind()
        ch = e.children()
        if kind == z3.Z3_OP_ADD:
            r = {}
            for c in ch: r = s._add(r, s.poly(c))
            return r
        if kind == z3.Z3_OP_SUB:
            r = s.poly(ch[0])
            for c in ch[1:]: r = s._add(r, s.poly(c), -1)
            return r
        if kind == z3.Z3_OP_UMINUS:
            return s._add({}, s.poly(ch[0]), -1)
        if kind == z3.Z3_OP_MUL:
            r = {(): F(1)}
            for c in ch: r = s._mul(r, s.poly(c))
            return r
        if kind == z3.Z3_OP_DIV:
            num, den = s.poly(ch[0]), s.poly(ch[1])
            if not den: return s.atom(e)
            if list(den) == [()]:
                c = den[()]
                return {m: v / c for m, v in num.items()}
            if not s.distribute:                    # quotient atom with the numeric content pulled out
                if not num: return {}
                ln, ld = num[min(num)], den[min(den)]
                q = s.term({m: v / ln for m, v in num.items()}) / s.term({m: v / ld for m, v in den.items()})
                return {m: v * (ln / ld) for m, v in s.atom(q).items()}
            if len(den) == 1:                       # monomial denominator c*m: pull the constant out
                (m, c), = den.items()
                inv = s.atom(z3.RealVal(1) / s.term({m: F(1)}))
                return s._mul({mm: v / c for mm, v in num.items()}, inv)
            # normalise the denominator's leading coefficient so that k*d and d share the reciprocal atom
            lead = den[min(den)]
            dn = {m: v / lead for m, v in den.items()}
            inv = s.atom(z3.RealVal(1) / s.term(dn))
            return s._mul({m: v / lead for m, v in num.items()}, inv)
        if kind == z3.Z3_OP_TO_REAL:
            inner = ch[0]
            if z3.is_int_value(inner): return {(): F(inner.as_long())}
            return s.atom(e)
        if kind == z3.Z3_OP_ITE:
            c = s.boolean(ch[0])
            if z3.is_true(c): return s.poly(ch[1])
            if z3.is_false(c): return s.poly(ch[2])
            a, b = s.term(s.poly(ch[1])), s.term(s.poly(ch[2]))
            if a.eq(b): return s.poly(ch[1])
            return s.atom(z3.If(c, a, b))
        if kind == z3.Z3_OP_POWER and z3.is_int_value(ch[1]) and 0 <= ch[1].as_long() <= 16:
            r = {(): F(1)}
            b = s.poly(ch[0])
            for _ in range(ch[1].as_long()): r = s._mul(r, b)
            return r
        if z3.is_real(e) or z3.is_int(e):           # uninterpreted function etc.
            args = [s.term(s.poly(c)) if (z3.is_real(c) or z3.is_int(c)) else s.boolean(c) for c in ch]
            return s.atom(e.decl()(*args))
        raise ValueError('poly of ' + str(e)[:80])

    def term(s, p):
        """canonical z3 term of a polynomial"""
        if not p: return z3.RealVal(0)
        parts = []
        for m in sorted(p):
            c = p[m]
            t = None
            for k, pw in m:
                a = s.atoms[k]
                a = z3.ToReal(a) if z3.is_int(a) else a
                for _ in range(pw): t = a if t is None else t * a
            q = z3.Q(c.numerator, c.denominator)
            parts.append(q if t is None else (t if c == 1 else q * t))
        return parts[0] if len(parts) == 1 else z3.Sum(parts)

    def boolean(s, e):
        k = e.get_id()
        r = s.bc.get(k)
        if r is None:
            r = s._boolean(e)
            s.bc[k] = r
        return r

    def _boolean(s, e):
        if z3.is_true(e) or z3.is_false(e) or not z3.is_app(e) or e.num_args() == 0: return e
        kind = e.decl().kind()
        ch = e.children()
        arith = all(z3.is_real(c) or z3.is_int(c) for c in ch)
        if arith and len(ch) == 2 and kind in (z3.Z3_OP_LE, z3.Z3_OP_LT, z3.Z3_OP_GE, z3.Z3_OP_GT, z3.Z3_OP_EQ, z3.Z3_OP_DISTINCT):
            try:
                d = s._add(s.poly(ch[0]), s.poly(ch[1]), -1)
            except OverflowError:
                return e
            if not d or list(d) == [()]:
                v = d.get((), F(0))
                return z3.BoolVal({z3.Z3_OP_LE: v <= 0, z3.Z3_OP_LT: v < 0, z3.Z3_OP_GE: v >= 0, z3.Z3_OP_GT: v > 0,
                                   z3.Z3_OP_EQ: v == 0, z3.Z3_OP_DISTINCT: v != 0}[kind])
            # normalise sign/scale by the leading coefficient so that a<=b and -b<=-a coincide
            lead = d[min(d)]
            if kind in (z3.Z3_OP_EQ, z3.Z3_OP_DISTINCT): lead = abs(lead) * (1 if lead > 0 else -1) * (1 if True else 1)
            dn = {m: v / (lead if kind in (z3.Z3_OP_EQ, z3.Z3_OP_DISTINCT) else abs(lead)) for m, v in d.items()}
            t = s.term(dn); z = z3.RealVal(0)
            return {z3.Z3_OP_LE: t <= z, z3.Z3_OP_LT: t < z, z3.Z3_OP_GE: t >= z, z3.Z3_OP_GT: t > z,
                    z3.Z3_OP_EQ: t == z, z3.Z3_OP_DISTINCT: t != z}[kind]
        if kind == z3.Z3_OP_NOT:
            c = s.boolean(ch[0])
            return z3.BoolVal(False) if z3.is_true(c) else z3.BoolVal(True) if z3.is_false(c) else z3.Not(c)
        if kind in (z3.Z3_OP_AND, z3.Z3_OP_OR):
            cs = [s.boolean(c) for c in ch]
            isand = kind == z3.Z3_OP_AND
            out = []
            for c in cs:
                if z3.is_true(c):
                    if isand: continue
                    return z3.BoolVal(True)
                if z3.is_false(c):
                    if isand: return z3.BoolVal(False)
                    continue
                out.append(c)
            if not out: return z3.BoolVal(isand)
            return out[0] if len(out) == 1 else (z3.And(*out) if isand else z3.Or(*out))
        if kind == z3.Z3_OP_ITE:
            return z3.If(s.boolean(ch[0]), s.boolean(ch[1]), s.boolean(ch[2]))
        if kind in (z3.Z3_OP_IMPLIES, z3.Z3_OP_XOR, z3.Z3_OP_IFF) or (kind == z3.Z3_OP_EQ and not arith):
            return e.decl()(*[s.boolean(c) if z3.is_bool(c) else c for c in ch])
        return e
