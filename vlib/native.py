"""Native replay: build /verif/replay against /repo's current working tree and run operation scripts."""
import os, struct, subprocess, time, math
from fractions import Fraction

VERIF = os.path.dirname(os.path.dirname(os.path.abspath(__file__)))
WORK = os.path.join(VERIF, '.work')
_built = {}


def build(profile='dev'):
    """(re)build the replay binary against /repo's working tree; cargo's fingerprinting notices edits"""
    if profile in _built: return _built[profile]
    tdir = os.path.join(WORK, 'replay_target')
    env = dict(os.environ, CARGO_NET_OFFLINE='true', CARGO_TARGET_DIR=tdir)
    cmd = ['cargo', 'build', '--offline', '--quiet'] + (['--release'] if profile == 'release' else [])
    lock = os.path.join(VERIF, 'replay', 'Cargo.lock')
    if not os.path.exists(lock) and os.path.exists('/repo/Cargo.lock'):
        import shutil; shutil.copy('/repo/Cargo.lock', lock)
    t0 = time.time()
    p = subprocess.run(cmd, cwd=os.path.join(VERIF, 'replay'), env=env, capture_output=True, text=True)
    if p.returncode != 0:
        raise RuntimeError('replay build failed:\n' + p.stderr[-4000:])
    path = os.path.join(tdir, 'release' if profile == 'release' else 'debug', 'ta_replay')
    _built[profile] = path
    return path


def f2hex(x):
    """python float -> 0x%016x bit pattern"""
    return '0x%016x' % struct.unpack('<Q', struct.pack('<d', float(x)))[0]


def hex2f(h):
    return struct.unpack('<d', struct.pack('<Q', int(h, 16)))[0]


def fr2f(q):
    """Fraction -> nearest f64 (python's float(Fraction) rounds correctly)"""
    return float(q)


def arg(x):
    if isinstance(x, str): return x
    if isinstance(x, Fraction): return f2hex(float(x))
    if isinstance(x, float): return f2hex(x)
    if isinstance(x, int): return f2hex(float(x))
    raise TypeError(x)


def run_script(lines, profile='dev'):
    """lines: list of command strings; returns list of parsed replies"""
    exe = build(profile)
    p = subprocess.run([exe], input='\n'.join(lines) + '\n', capture_output=True, text=True)
    if p.returncode != 0:
        raise RuntimeError('replay crashed: rc=%d\n%s' % (p.returncode, p.stderr[-2000:]))
    out = []
    for l in p.stdout.split('\n'):
        if not l: continue
        w = l.split(' ', 1)
        if w[0] == 'out':
            out.append(('out', [hex2f(h) for h in w[1].split() if h.startswith('0x')]) + tuple(x for x in w[1].split() if not x.startswith('0x')))
        elif w[0] in ('str', 'err', 'bytes'):
            out.append((w[0], w[1] if len(w) > 1 else ''))
        elif w[0] == 'usize':
            out.append(('usize', int(w[1])))
        else:
            out.append((w[0],))
    cmds = [l for l in lines if l.strip() and not l.startswith('#')]
    if len(out) != len(cmds):
        raise RuntimeError('replay reply count mismatch %d vs %d' % (len(out), len(cmds)))
    return out


def new_cmd(slot, name, periods=(), mult=None):
    s = 'new %s %s %s' % (slot, name, ' '.join(str(p) for p in periods))
    if mult is not None: s += ' m=' + arg(mult)
    return s


def feed_cmd(slot, v):
    if isinstance(v, (tuple, list)):
        return 'bar %s %s' % (slot, ' '.join(arg(x) for x in v))
    return 'next %s %s' % (slot, arg(v))


def run_stream(name, periods, mult, stream, profile='dev'):
    """construct, feed the stream, return list of output lists (floats) or 'panic'"""
    lines = [new_cmd('a', name, periods, mult)] + [feed_cmd('a', v) for v in stream]
    rep = run_script(lines, profile)
    if rep[0][0] != 'ok': return rep[0]
    return [r[1] if r[0] == 'out' else r[0] for r in rep[1:]]


def write_replay(path, lines, note=''):
    os.makedirs(os.path.dirname(path), exist_ok=True)
    with open(path, 'w') as f:
        if note:
            for l in note.split('\n'): f.write('# ' + l + '\n')
        f.write('\n'.join(lines) + '\n')
