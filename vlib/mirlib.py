"""Hand-written models of the core/alloc functions the crate's MIR calls (engine R).
Every model used in a run is counted in Executor.lib_called and reported in the evidence."""
import re
from fractions import Fraction
import z3
from .mirsym import (AbsArr, Agg, EnumV, Ptr, Arr, UNIT, Unsupported, PathDead, is_sym, conc, R, to_z3,
                     merge_val, short_type, is_float, z3not)

BAR_FIELDS = {'Open': 0, 'High': 1, 'Low': 2, 'Close': 3, 'Volume': 4}
BAR_METH = {'open': 'Open', 'high': 'High', 'low': 'Low', 'close': 'Close', 'volume': 'Volume'}

ALLOCATING = ('from_elem', 'into_boxed_slice', 'Box<[f64]> as Clone', 'with_capacity', 'Vec::<f64>::new',
              'to_vec', 'Box::<', 'push')


def some(v): return EnumV('Option', 1, {'Some': (v,)})
NONE = EnumV('Option', 0, {'None': ()})


def fabs(v):
    if is_sym(v): return z3.If(v >= 0, v, -v)
    return abs(v)


def fmax(a, b):
    a, b = conc(a), conc(b)
    if is_sym(a) or is_sym(b):
        a, b = R(a), R(b)
        return z3.If(a >= b, a, b)
    return max(a, b)


def fmin(a, b):
    a, b = conc(a), conc(b)
    if is_sym(a) or is_sym(b):
        a, b = R(a), R(b)
        return z3.If(a <= b, a, b)
    return min(a, b)


def _note(ex, name):
    ex.lib_called[name] = ex.lib_called.get(name, 0) + 1


def _iter_next(ex, itp):
    """advance the iterator value stored behind pointer itp; returns Option"""
    it = ex.deref_read(itp)
    r, it2 = _iter_step(ex, it)
    ex.deref_write(itp, it2)
    return r


def _iter_step(ex, it):
    if isinstance(it, Ptr):
        r, it2 = _iter_step(ex, ex.deref_read(it))
        ex.deref_write(it, it2)
        return r, it
    if not isinstance(it, Agg): raise Unsupported('iterator %r' % (it,))
    k = it.kind
    if k == 'SliceIter':
        p, pos = it.f
        if is_sym(pos) or is_sym(p.hi): raise Unsupported('slice iterator with symbolic bounds')
        if pos >= p.hi: return NONE, it
        return some(Ptr(p.oid, p.path + (('i', pos),))), Agg('SliceIter', (p, pos + 1))
    if k == 'SliceIterRev':
        p, pos = it.f
        if pos <= p.lo: return NONE, it
        return some(Ptr(p.oid, p.path + (('i', pos - 1),))), Agg('SliceIterRev', (p, pos - 1))
    if k == 'Range':
        a, b = it.f
        a, b = conc(a), conc(b)
        if is_sym(a) or is_sym(b): raise Unsupported('range iterator with symbolic bounds')
        if a >= b: return NONE, it
        return some(a), Agg('Range', (a + 1, b), it.names)
    if k == 'RangeInclusive':
        a, b, ex_ = it.f
        if is_sym(a) or is_sym(b): raise Unsupported('range iterator with symbolic bounds')
        if ex_ or a > b: return NONE, it
        if a == b: return some(a), Agg('RangeInclusive', (a, b, True))
        return some(a), Agg('RangeInclusive', (a + 1, b, False))
    if k == 'Enumerate':
        inner, n = it.f
        r, inner2 = _iter_step(ex, inner)
        if r.discr == 0: return NONE, Agg('Enumerate', (inner2, n))
        return some(Agg('tuple', (n, r.pay['Some'][0]))), Agg('Enumerate', (inner2, n + 1))
    if k == 'Copied':
        r, inner2 = _iter_step(ex, it.f[0])
        if r.discr == 0: return NONE, Agg('Copied', (inner2,))
        return some(ex.deref_read(r.pay['Some'][0])), Agg('Copied', (inner2,))
    if k == 'Skip':
        inner, n = it.f
        while n > 0:
            r, inner = _iter_step(ex, inner); n -= 1
        r, inner = _iter_step(ex, inner)
        return r, Agg('Skip', (inner, 0))
    if k == 'Take':
        inner, n = it.f
        if n <= 0: return NONE, it
        r, inner = _iter_step(ex, inner)
        return r, Agg('Take', (inner, n - 1))
    if k == 'Zip':
        a, b = it.f
        ra, a2 = _iter_step(ex, a)
        if ra.discr == 0: return NONE, Agg('Zip', (a2, b))
        rb, b2 = _iter_step(ex, b)
        if rb.discr == 0: return NONE, Agg('Zip', (a2, b2))
        return some(Agg('tuple', (ra.pay['Some'][0], rb.pay['Some'][0]))), Agg('Zip', (a2, b2))
    if k == 'Map':
        inner, f = it.f
        r, inner2 = _iter_step(ex, inner)
        if r.discr == 0: return NONE, Agg('Map', (inner2, f))
        return some(ex.call_callable(f, [r.pay['Some'][0]])), Agg('Map', (inner2, f))
    if k == 'Rev':
        inner = it.f[0]
        if inner.kind == 'SliceIter':
            p, pos = inner.f
            return _iter_step(ex, Agg('SliceIterRev', (Ptr(p.oid, p.path, pos, p.hi), p.hi)))
        if inner.kind == 'Range':
            a, b = inner.f
            if a >= b: return NONE, it
            return some(b - 1), Agg('Rev', (Agg('Range', (a, b - 1)),))
        raise Unsupported('rev of ' + inner.kind)
    raise Unsupported('iterator kind ' + k)


def _drain(ex, it):
    if isinstance(it, Ptr): it = ex.deref_read(it)
    out = []
    while True:
        r, it = _iter_step(ex, it)
        if r.discr == 0: return out
        out.append(r.pay['Some'][0])


def _val(ex, v):
    """f64 from a value or a reference to one"""
    return ex.deref_read(v) if isinstance(v, Ptr) else v


def _slice_ptr(ex, p):
    if isinstance(p, Agg) and p.kind == 'Box': p = p.f[0].f[0]
    if isinstance(p, Ptr) and p.lo is None:
        v = ex.deref_read(p)
        if isinstance(v, Agg) and v.kind == 'Box': return v.f[0].f[0]
        if isinstance(v, Ptr) and v.lo is not None: return v
        if isinstance(v, Arr): return Ptr(p.oid, p.path, 0, len(v.e))
    if isinstance(p, Ptr) and p.lo is not None: return p
    raise Unsupported('expected a slice, got %r' % (p,))


def call(ex, fr, c, a):
    mir = ex.mir
    # ---------------- crate functions
    m = re.fullmatch(r'<(.+?) as (?:traits::|crate::traits::|crate::)?(\w+(?:<.*>)?)>::(\w+)', c)
    if m:
        ty, tr, meth = m.group(1), m.group(2).replace(' ', ''), m.group(3)
        if ty == 'T' or re.fullmatch(r'[A-Z]\w?', ty) and mir.lookup(ty, tr, meth) is None and tr in BAR_FIELDS:
            return bar_get(ex, a[0], tr, meth)
        fn = mir.lookup(short_type(ty), tr, meth)
        if fn is not None:
            return ex.run(fn, a)
    m = re.fullmatch(r'(\w+)::(\w+)', c)
    if m:
        fn = mir.lookup(m.group(1), '', m.group(2))
        if fn is not None: return ex.run(fn, a)
    m = re.fullmatch(r'(?:\w+::)*(\w+)', c)
    if m and ('', '', m.group(1)) in mir.impls and '::<' not in c:
        return ex.run(mir.impls[('', '', m.group(1))], a)
    m = re.fullmatch(r'(?:\w+::)*(\w+)::(\w+)', c)
    if m:
        fn = mir.lookup(m.group(1), '', m.group(2))
        if fn is not None: return ex.run(fn, a)

    # ---------------- allocation
    if re.match(r'(std|alloc)::vec::from_elem::<f64>', c):
        _note(ex, 'vec::from_elem'); ex.allocs.append((tuple(ex.stack), 'from_elem'))
        n = conc(a[1])
        if is_sym(n):
            if getattr(ex, 'abstract_arrays', False): return Agg('Vec', (AbsArr(n),))
            raise Unsupported('vec![x; n] with symbolic n')
        if n > 4096: raise Unsupported('vec![x; n] with n > 4096 in R')
        return Agg('Vec', (Arr([a[0]] * n),))
    if re.fullmatch(r'Vec::<f64>::into_boxed_slice', c) or c.endswith('::into_boxed_slice'):
        _note(ex, 'Vec::into_boxed_slice'); ex.allocs.append((tuple(ex.stack), 'into_boxed_slice'))
        return ex.make_box(a[0].f[0] if isinstance(a[0].f[0], AbsArr) else a[0].f[0].e)
    if c == '<Box<[f64]> as Clone>::clone':
        _note(ex, 'Box<[f64]>::clone'); ex.allocs.append((tuple(ex.stack), 'Box<[f64]>::clone'))
        p = _slice_ptr(ex, a[0])
        arr = ex.read_path(ex.heap[p.oid], p.path)
        return ex.make_box(arr.e[p.lo:p.hi])
    if re.fullmatch(r'<(Option<f64>|f64|usize|bool|Option<usize>) as Clone>::clone', c):
        _note(ex, 'Copy::clone'); return ex.deref_read(a[0])
    if re.search(r'Vec::<.*>::(new|with_capacity|push)|Box::<.*>::new|VecDeque', c):
        ex.allocs.append((tuple(ex.stack), c)); raise Unsupported('allocation ' + c)

    # ---------------- slices / iterators
    if c == 'core::slice::<impl [f64]>::iter' or c == '<&[f64] as IntoIterator>::into_iter' \
            or c == "<&Box<[f64]> as IntoIterator>::into_iter":
        _note(ex, 'slice::iter'); p = _slice_ptr(ex, a[0]); return Agg('SliceIter', (p, p.lo))
    if c == 'core::slice::<impl [f64]>::len':
        _note(ex, 'slice::len'); p = _slice_ptr(ex, a[0]); return p.hi - p.lo
    if c in ('core::slice::<impl [f64]>::copy_from_slice', 'core::slice::<impl [f64]>::clone_from_slice'):
        _note(ex, 'slice::copy_from_slice'); d, s_ = _slice_ptr(ex, a[0]), _slice_ptr(ex, a[1])
        if (d.hi - d.lo) != (s_.hi - s_.lo):
            ex.panics.append((ex.pc_term(), '"source slice length does not match destination slice length"', ex.stack[-1]))
            raise PathDead('copy_from_slice length mismatch')
        vals = [ex.deref_read(e) for e in ex.slice_elems(s_)]
        for e, v in zip(ex.slice_elems(d), vals): ex.deref_write(e, v)
        return UNIT
    if c == 'core::slice::<impl [f64]>::to_vec' or c == '<[f64] as ToOwned>::to_owned':
        _note(ex, 'slice::to_vec'); ex.allocs.append((tuple(ex.stack), 'to_vec')); s_ = _slice_ptr(ex, a[0])
        return Agg('Vec', (Arr([ex.deref_read(e) for e in ex.slice_elems(s_)]),))
    if c == 'core::slice::<impl [f64]>::fill':
        _note(ex, 'slice::fill'); p = _slice_ptr(ex, a[0])
        for e in ex.slice_elems(p): ex.deref_write(e, a[1])
        return UNIT
    if re.fullmatch(r'<.* as IntoIterator>::into_iter', c):
        _note(ex, 'IntoIterator::into_iter(identity)')
        if isinstance(a[0], Agg) and a[0].kind in ('Range', 'Enumerate', 'SliceIter', 'Copied', 'Rev', 'Skip', 'Take', 'Zip', 'RangeInclusive'):
            return a[0]
        raise Unsupported('into_iter on ' + repr(a[0])[:60])
    m = re.fullmatch(r"<(.*) as Iterator>::(\w+)(?:::<.*>)?", c)
    if m:
        meth = m.group(2)
        if meth == 'next':
            _note(ex, 'Iterator::next'); return _iter_next(ex, a[0])
        if meth == 'enumerate': _note(ex, 'Iterator::enumerate'); return Agg('Enumerate', (a[0], 0))
        if meth in ('copied', 'cloned'): _note(ex, 'Iterator::copied'); return Agg('Copied', (a[0],))
        if meth == 'rev': _note(ex, 'Iterator::rev'); return Agg('Rev', (a[0],))
        if meth == 'skip': _note(ex, 'Iterator::skip'); return Agg('Skip', (a[0], a[1]))
        if meth == 'take': _note(ex, 'Iterator::take'); return Agg('Take', (a[0], a[1]))
        if meth == 'zip': _note(ex, 'Iterator::zip'); return Agg('Zip', (a[0], a[1]))
        if meth == 'map': _note(ex, 'Iterator::map(closure)'); return Agg('Map', (a[0], a[1]))
        if meth == 'fold':
            _note(ex, 'Iterator::fold(closure)'); acc = a[1]
            for v in _drain(ex, a[0]): acc = ex.call_callable(a[2], [acc, v])
            return acc
        if meth == 'for_each':
            _note(ex, 'Iterator::for_each(closure)')
            for v in _drain(ex, a[0]): ex.call_callable(a[1], [v])
            return UNIT
        if meth in ('position', 'any', 'all'):
            _note(ex, 'Iterator::%s(closure)' % meth)
            items = _drain(ex, a[0])
            preds = [conc(ex.call_callable(a[1], [v])) for v in items]
            if meth == 'any':
                return conc(z3.simplify(z3.Or(*[to_z3(p) for p in preds]))) if preds else False
            if meth == 'all':
                return conc(z3.simplify(z3.And(*[to_z3(p) for p in preds]))) if preds else True
            res = NONE
            for i in range(len(items) - 1, -1, -1):
                p = preds[i]
                if not is_sym(p): res = some(i) if p else res
                else: res = merge_val(p, some(i), res)
            return res
        if meth in ('max_by', 'min_by'):
            _note(ex, 'Iterator::%s(closure)' % meth)
            items = _drain(ex, a[0])
            if not items: return NONE
            best = items[0]
            for x in items[1:]:
                pb, px = ex.new_root(best, 'cmp'), ex.new_root(x, 'cmp')
                o = ex.call_callable(a[1], [pb, px])
                ex.heap.pop(pb.oid, None); ex.heap.pop(px.oid, None)
                d = conc(o.discr)
                # max_by keeps the LAST of several maxima (replace unless best > x); min_by keeps the FIRST minimum (replace only if best > x)
                if meth == 'max_by': rep = (d != 1) if not is_sym(d) else (d != 1)
                else: rep = (d == 1) if not is_sym(d) else (d == 1)
                if is_sym(rep): best = merge_val(z3.simplify(rep), x, best)
                elif rep: best = x
            return some(best)
        if meth == 'sum':
            _note(ex, 'Iterator::sum'); tot = Fraction(0)
            for v in _drain(ex, a[0]): tot = ex.binop('Add', tot, _val(ex, v))
            return tot
        if meth == 'count': _note(ex, 'Iterator::count'); return len(_drain(ex, a[0]))
        raise Unsupported('iterator adaptor ' + meth)
    m = re.fullmatch(r'<\[f64\] as Index<(?:std::ops::)?(Range|RangeTo|RangeFrom|RangeFull|RangeInclusive|RangeToInclusive)(?:<usize>)?>>::index(?:_mut)?', c) \
        or re.fullmatch(r'<\[f64\] as IndexMut<(?:std::ops::)?(Range|RangeTo|RangeFrom|RangeFull|RangeInclusive|RangeToInclusive)(?:<usize>)?>>::index_mut', c) \
        or re.fullmatch(r'<Box<\[f64\]> as Index(?:Mut)?<(?:std::ops::)?(Range|RangeTo|RangeFrom|RangeFull|RangeInclusive|RangeToInclusive)(?:<usize>)?>>::index(?:_mut)?', c)
    if m:
        _note(ex, 'slice::index(range)')
        p = _slice_ptr(ex, a[0]); n = p.hi - p.lo; rk = m.group(1); r = a[1]
        if rk == 'Range': st, en = r.f
        elif rk == 'RangeTo': st, en = 0, r.f[0]
        elif rk == 'RangeFrom': st, en = r.f[0], n
        elif rk == 'RangeFull': st, en = 0, n
        elif rk == 'RangeInclusive': st, en = r.f[0], r.f[1] + 1
        else: st, en = 0, r.f[0] + 1
        st, en = conc(st), conc(en)
        if is_sym(st) or is_sym(en):
            bad = z3.Or(to_z3(st) > to_z3(en), to_z3(en) > n)
            ex.panics.append((z3.And(ex.pc_term(), bad), '"slice index out of range"', ex.stack[-1]))
            ex.nopanic.append(z3.Implies(ex.pc_term(), z3.Not(bad)))
            raise Unsupported('slice range with symbolic bounds')
        if st > en or en > n:
            ex.panics.append((ex.pc_term(), '"slice index out of range %d..%d of %d"' % (st, en, n), ex.stack[-1]))
            raise PathDead('slice index out of range')
        return Ptr(p.oid, p.path, p.lo + st, p.lo + en)

    # ---------------- f64 / integer intrinsics
    m = re.fullmatch(r'(?:core::|std::)?f64::<impl f64>::(\w+)', c)
    if m:
        f = m.group(1); _note(ex, 'f64::' + f)
        x = conc(a[0])
        if f == 'abs': return fabs(x)
        if f == 'sqrt': return fsqrt(ex, x)
        if f == 'max': return fmax(x, a[1])
        if f == 'min': return fmin(x, a[1])
        if f == 'is_sign_positive': return conc(z3.simplify(x >= 0)) if is_sym(x) else x >= 0
        if f == 'is_sign_negative': return conc(z3.simplify(x < 0)) if is_sym(x) else x < 0
        if f == 'is_nan': return False
        if f == 'is_finite': return True
        if f == 'is_infinite': return False
        if f == 'is_normal': raise Unsupported('is_normal')
        if f == 'mul_add': return ex.binop('Add', ex.binop('Mul', x, a[1]), a[2])
        if f == 'recip': return ex.binop('Div', Fraction(1), x)
        if f == 'powi':
            n = conc(a[1])
            if is_sym(n) or n < 0 or n > 8: raise Unsupported('powi exponent')
            r = Fraction(1)
            for _ in range(n): r = ex.binop('Mul', r, x)
            return r
        if f == 'signum':
            return z3.If(x >= 0, z3.RealVal(1), z3.RealVal(-1)) if is_sym(x) else (Fraction(1) if x >= 0 else Fraction(-1))
        if f == 'clamp': return fmin(fmax(x, a[1]), a[2])
        if f == 'copysign':
            y = conc(a[1]); ax = fabs(x)
            return z3.If(y >= 0, R(ax), -R(ax)) if (is_sym(y) or is_sym(ax)) else (ax if y >= 0 else -ax)
        raise Unsupported('f64 method ' + f)
    m = re.fullmatch(r'<(&)?f64 as (Add|Sub|Mul|Div)<(&)?f64>>::(add|sub|mul|div)', c)
    if m:
        _note(ex, 'f64 ops on references')
        x = ex.deref_read(a[0]) if m.group(1) else a[0]
        y = ex.deref_read(a[1]) if m.group(3) else a[1]
        return ex.binop(m.group(2), x, y)
    m = re.fullmatch(r'<f64 as (Add|Sub|Mul|Div)Assign<(&)?f64>>::\w+', c)
    if m:
        _note(ex, 'f64 op-assign')
        y = ex.deref_read(a[1]) if m.group(2) else a[1]
        ex.deref_write(a[0], ex.binop(m.group(1), ex.deref_read(a[0]), y)); return UNIT
    if re.fullmatch(r'<(&)?f64 as Neg>::neg', c):
        _note(ex, 'f64 neg'); return -_val(ex, a[0])
    m = re.fullmatch(r'<f64 as PartialOrd>::(lt|le|gt|ge)|<f64 as PartialEq>::(eq|ne)', c)
    if m:
        _note(ex, 'f64 comparisons via traits')
        op = (m.group(1) or m.group(2)).capitalize()
        return ex.binop(op, ex.deref_read(a[0]), ex.deref_read(a[1]))
    m = re.fullmatch(r'(?:core::|std::)?num::<impl usize>::(\w+)', c)
    if m:
        f = m.group(1); _note(ex, 'usize::' + f); x, y = conc(a[0]), conc(a[1]) if len(a) > 1 else None
        if is_sym(x) or is_sym(y): raise Unsupported('usize::%s on symbolic' % f)
        if f == 'saturating_sub': return max(0, x - y)
        if f == 'saturating_add': return min(2 ** 64 - 1, x + y)
        if f == 'wrapping_add': return (x + y) % 2 ** 64
        if f == 'wrapping_sub': return (x - y) % 2 ** 64
        if f == 'checked_add': return some(x + y) if x + y < 2 ** 64 else NONE
        if f == 'checked_sub': return some(x - y) if x >= y else NONE
        if f == 'pow': return x ** y
        raise Unsupported('usize method ' + f)
    m = re.fullmatch(r'(?:std|core)::cmp::(min|max)::<(usize|f64)>|<usize as Ord>::(min|max)|(?:std::cmp::|core::cmp::)?Ord::(min|max)', c)
    if m:
        f = m.group(1) or m.group(3) or m.group(4); _note(ex, 'cmp::' + f)
        x, y = conc(a[0]), conc(a[1])
        if is_sym(x) or is_sym(y):
            x, y = (R(x), R(y)) if (is_float(x) or is_float(y)) else (to_z3(x), to_z3(y))
            return z3.If(x <= y, x, y) if f == 'min' else z3.If(x >= y, x, y)
        return min(x, y) if f == 'min' else max(x, y)
    m = re.fullmatch(r'(?:std|core)::mem::(replace|swap|take)::<.*>', c)
    if m:
        f = m.group(1); _note(ex, 'mem::' + f)
        if f == 'replace':
            old = ex.deref_read(a[0]); ex.deref_write(a[0], a[1]); return old
        if f == 'swap':
            x, y = ex.deref_read(a[0]), ex.deref_read(a[1]); ex.deref_write(a[0], y); ex.deref_write(a[1], x); return UNIT
        old = ex.deref_read(a[0])
        if isinstance(old, Fraction) or is_float(old): ex.deref_write(a[0], Fraction(0)); return old
        if isinstance(old, EnumV) and old.ty == 'Option': ex.deref_write(a[0], NONE); return old
        raise Unsupported('mem::take of %r' % (old,))

    # ---------------- Result / Option plumbing
    if re.fullmatch(r'<(?:std::result::)?Result<.*> as Try>::branch', c):
        _note(ex, 'Result::branch'); r = a[0]
        pay = {}
        if 'Ok' in r.pay: pay['Continue'] = r.pay['Ok']
        if 'Err' in r.pay: pay['Break'] = (EnumV('Result', 1, {'Err': r.pay['Err']}),)
        return EnumV('ControlFlow', r.discr, pay)
    if re.fullmatch(r'<(?:std::result::)?Result<.*> as FromResidual<.*>>::from_residual', c):
        _note(ex, 'Result::from_residual'); return EnumV('Result', 1, {'Err': a[0].pay['Err']})
    if re.fullmatch(r'<(?:std::option::)?Option<.*> as Try>::branch', c):
        _note(ex, 'Option::branch'); r = a[0]
        pay = {}
        if 'Some' in r.pay: pay['Continue'] = r.pay['Some']
        pay['Break'] = (NONE,)
        d = r.discr
        return EnumV('ControlFlow', (1 - d) if not is_sym(d) else 1 - d, pay)
    m = re.fullmatch(r'(?:std::result::)?Result::<.*>::(unwrap|expect|unwrap_or|is_ok|is_err|ok)', c)
    if m:
        f = m.group(1); _note(ex, 'Result::' + f); r = a[0]; d = conc(r.discr)
        if f in ('unwrap', 'expect'):
            if not is_sym(d):
                if d != 0:
                    ex.panics.append((ex.pc_term(), '"called `Result::unwrap()` on an `Err` value"', ex.stack[-1]))
                    raise PathDead('unwrap on Err')
            else:
                ex.panics.append((z3.And(ex.pc_term(), d != 0), '"called `Result::unwrap()` on an `Err` value"', ex.stack[-1]))
                ex.nopanic.append(z3.Implies(ex.pc_term(), d == 0))
            if 'Ok' not in r.pay: raise PathDead('unwrap on Err')
            return r.pay['Ok'][0]
        if f == 'is_ok': return conc(z3.simplify(d == 0)) if is_sym(d) else d == 0
        if f == 'is_err': return conc(z3.simplify(d != 0)) if is_sym(d) else d != 0
        raise Unsupported('Result::' + f)
    m = re.fullmatch(r'(?:std::option::)?Option::<.*>::(unwrap|expect|unwrap_or|is_some|is_none|replace|take)', c)
    if m:
        f = m.group(1); _note(ex, 'Option::' + f); r = a[0]
        if f in ('unwrap', 'expect'):
            d = conc(r.discr)
            if not is_sym(d):
                if d != 1:
                    ex.panics.append((ex.pc_term(), '"called `Option::unwrap()` on a `None` value"', ex.stack[-1]))
                    raise PathDead('unwrap on None')
            else:
                ex.panics.append((z3.And(ex.pc_term(), d != 1), '"called `Option::unwrap()` on a `None` value"', ex.stack[-1]))
                ex.nopanic.append(z3.Implies(ex.pc_term(), d == 1))
            return r.pay['Some'][0]
        if f == 'unwrap_or':
            d = conc(r.discr)
            if not is_sym(d): return r.pay['Some'][0] if d == 1 else a[1]
            return merge_val(d == 1, r.pay['Some'][0], a[1]) if 'Some' in r.pay else a[1]
        if f == 'is_some': d = conc(r.discr); return conc(z3.simplify(d == 1)) if is_sym(d) else d == 1
        if f == 'is_none': d = conc(r.discr); return conc(z3.simplify(d == 0)) if is_sym(d) else d == 0
        if f == 'replace':
            old = ex.deref_read(a[0]); ex.deref_write(a[0], some(a[1])); return old
        if f == 'take':
            old = ex.deref_read(a[0]); ex.deref_write(a[0], NONE); return old
    if c == '<f64 as PartialOrd>::partial_cmp':
        _note(ex, 'f64::partial_cmp (reals: always Some)')
        x, y = conc(ex.deref_read(a[0])), conc(ex.deref_read(a[1]))
        if is_sym(x) or is_sym(y):
            x, y = R(x), R(y)
            d = z3.If(x < y, z3.IntVal(-1), z3.If(x == y, z3.IntVal(0), z3.IntVal(1)))
            return some(EnumV('Ordering', conc(z3.simplify(d)), {'Less': (), 'Equal': (), 'Greater': ()}))
        return some(EnumV('Ordering', -1 if x < y else (0 if x == y else 1), {'Less': (), 'Equal': (), 'Greater': ()}))
    m = re.fullmatch(r'(?:std::option::)?Option::<.*>::(unwrap_or_else|unwrap_or_default)(?:::<.*>)?', c)
    if m:
        _note(ex, 'Option::%s' % m.group(1)); r = a[0]; d = conc(r.discr)
        alt = (lambda: ex.call_callable(a[1], [])) if m.group(1) == 'unwrap_or_else' else (lambda: Fraction(0))
        if not is_sym(d): return r.pay['Some'][0] if d == 1 else alt()
        if 'Some' not in r.pay: return alt()
        return merge_val(d == 1, r.pay['Some'][0], alt())
    m = re.fullmatch(r'(?:std::option::)?Option::<.*>::(map|map_or|and_then)::<.*>', c)
    if m:
        _note(ex, 'Option::%s(closure)' % m.group(1)); r = a[0]; d = conc(r.discr)
        if m.group(1) == 'map':
            if not is_sym(d): return some(ex.call_callable(a[1], [r.pay['Some'][0]])) if d == 1 else NONE
            if 'Some' not in r.pay: return NONE
            return merge_val(d == 1, some(ex.call_callable(a[1], [r.pay['Some'][0]])), NONE)
        if m.group(1) == 'map_or':
            if not is_sym(d): return ex.call_callable(a[2], [r.pay['Some'][0]]) if d == 1 else a[1]
            if 'Some' not in r.pay: return a[1]
            return merge_val(d == 1, ex.call_callable(a[2], [r.pay['Some'][0]]), a[1])
        raise Unsupported('Option::' + m.group(1))
    if re.fullmatch(r'<f64 as Default>::default', c): return Fraction(0)
    if re.fullmatch(r'<usize as Default>::default', c): return 0
    if re.fullmatch(r'<bool as Default>::default', c): return False
    if re.fullmatch(r'<.* as (From|Into)<.*>>::(from|into)', c) and len(a) == 1 and not isinstance(a[0], (Agg, EnumV)):
        _note(ex, 'From/Into identity on scalar')
        v = a[0]
        if 'f64' in c.split(' as ')[0] and isinstance(v, int) and not isinstance(v, bool): return Fraction(v)
        return v
    raise Unsupported('call ' + c)


def fsqrt(ex, x, _const=False):
    x = conc(x)
    cur = ex.stack[-1] if ex.stack else '?'
    if not is_sym(x):
        if x < 0:
            ex.sqrts.append((ex.pc_term(), x, cur)); raise PathDead('sqrt of negative constant (NaN)')
        # exact rational square root if it exists, else a constrained fresh variable
        import math
        n, d = x.numerator, x.denominator
        rn, rd = math.isqrt(n), math.isqrt(d)
        if rn * rn == n and rd * rd == d: return Fraction(rn, rd)
        x = R(x); _const = True
    ex.sqrts.append((ex.pc_term(), x, cur))
    # sqrt as an uninterpreted function with its defining axiom instantiated at this argument:
    # equal arguments give equal roots by congruence
    try:
        from . import rcore
        cx = rcore.Canon()
        if not _const: x = cx.term(cx.poly(x))
        if z3.is_rational_value(x) and not _const:                    # the argument is a constant after normalisation (e.g. the variance of a flat window)
            return fsqrt(ex, Fraction(x.numerator_as_long(), x.denominator_as_long()), True)
    except Unsupported:
        raise
    except PathDead:
        raise
    except Exception:
        pass
    sv = FSQRT(x)
    ex.defs.append(z3.Implies(x >= 0, z3.And(sv >= 0, sv * sv == x)))
    return sv


FSQRT = z3.Function('fsqrt', z3.RealSort(), z3.RealSort())


def bar_get(ex, ptr, tr, meth):
    bar = ex.deref_read(ptr)
    if isinstance(bar, Agg) and bar.kind == 'AbstractBar':
        _note(ex, 'abstract bar getter ' + tr)
        return bar.f[BAR_FIELDS[tr]]
    if isinstance(bar, Agg):
        fn = ex.mir.lookup(bar.kind, tr, meth)
        if fn is not None: return ex.run(fn, [ptr])
    raise Unsupported('bar getter on %r' % (bar,))
