"""Check driver: tiers, seeds, family scheduling, known findings, evidence, verdicts.

exit 0  every required family discharged, witnesses alive, only listed known findings hit
exit 1  a natively reproduced violation not listed in known_findings.json (VIOLATION line printed)
exit 2  undecided (solver unknown/timeout, unsupported construct, vacuous family, build error, ...)
"""
import json, os, sys, time, traceback, multiprocessing, hashlib

VERIF = os.path.dirname(os.path.dirname(os.path.abspath(__file__)))      # the directory this framework runs from (a snapshot under vp run)
WORK = os.path.join(VERIF, '.work')


def tier():
    t = os.environ.get('VERIF_TIER', '')
    for i, a in enumerate(sys.argv):
        if a == '--tier' and i + 1 < len(sys.argv): t = sys.argv[i + 1]
    return 'thorough' if t == 'thorough' else 'quick'


def seed():
    try: return int(os.environ.get('VERIF_SEED', '0'))
    except ValueError: return 0


class Result(dict):
    """one query family's outcome (plain dict so it crosses process boundaries)"""


def fam_result(family, engine, status, **kw):
    r = Result(family=family, engine=engine, status=status)
    r.update(kw)
    return r


def _run_job(job):
    fn, args, kw = job
    t0 = time.time()
    try:
        res = fn(*args, **kw)
        if isinstance(res, dict): res = [res]
        for r in res: r.setdefault('wall_s', round(time.time() - t0, 2))
        return res
    except Exception as e:                       # never let an internal error look like success
        return [fam_result(getattr(fn, '__name__', '?') + repr(args[1:])[:80], 'R', 'undecided',
                           detail='internal error: ' + ''.join(traceback.format_exception_only(type(e), e)).strip()
                                  + ' @ ' + traceback.format_exc().strip().split('\n')[-3].strip())]


def run_jobs(jobs, nproc=14):
    """jobs: list of (function, args, kwargs); executed in forked workers; returns flat list of results"""
    if not jobs: return []
    if nproc <= 1 or len(jobs) == 1:
        out = []
        for j in jobs: out += _run_job(j)
        return out
    ctx = multiprocessing.get_context('fork')
    with ctx.Pool(min(nproc, len(jobs)), maxtasksperchild=4) as pool:
        out = []
        for res in pool.imap_unordered(_run_job, jobs, chunksize=1):
            out += res
        return out


class Check:
    def __init__(s, prop, level='model_checking'):
        s.prop, s.level = prop, level
        s.tier, s.seed = tier(), seed()
        s.t0 = time.time()
        s.results = []
        s.assumptions = []
        s.notes = []
        s.known = []
        kf = json.load(open(os.path.join(VERIF, 'known_findings.json')))
        for e in kf.get('known', []):
            if e.get('property') == prop: s.known.append(e)
        s.extra = {}
        os.makedirs(WORK, exist_ok=True)
        os.makedirs(os.path.join(VERIF, 'evidence'), exist_ok=True)

    phase = 'floor'

    def add(s, results):
        if s.phase == 'ceiling':
            have = {r['family'] for r in s.results}
            out = []
            for r in results:
                if r['family'] in have and r['status'] != 'violation': continue        # already decided in the floor phase
                r['required'] = False
                r['family'] = r['family'] if r['family'] not in have else r['family'] + ' [thorough]'
                out.append(r)
            results = out
        s.results += results

    def is_known(s, r):
        role = r.get('role')
        if not role: return None
        for e in s.known:
            if all(e.get(k) == role.get(k) for k in ('indicator', 'family', 'kind')) and \
                    all(e[k] == role.get(k) for k in e if k not in ('property', 'indicator', 'family', 'kind', 'what')):
                return e
        return None

    def finish(s):
        viol, undec, known_hit = [], [], []
        for r in s.results:
            if r['status'] == 'violation':
                e = s.is_known(r)
                if e is not None:
                    r['status'] = 'known'; known_hit.append((e, r))
                else:
                    viol.append(r)
            elif r['status'] == 'undecided':
                if r.get('required', True): undec.append(r)
                else: r['status'] = 'ceiling-not-reached'
        for e, r in known_hit:
            key = (e['indicator'], e['family'], e['kind'])
        seen = set()
        for e, r in known_hit:
            key = (e['indicator'], e['family'], e['kind'])
            if key in seen: continue
            seen.add(key)
            print('KNOWN-FINDING: property=%s %s' % (s.prop, e['what']))
        rc = 0
        for i, r in enumerate(viol):
            path = os.path.join(WORK, 'replays', '%s_%s_%d.replay' % (s.prop, hashlib.md5(repr(r.get('family')).encode()).hexdigest()[:8], i))
            os.makedirs(os.path.dirname(path), exist_ok=True)
            with open(path, 'w') as f:
                f.write('# property %s, family %s\n# %s\n' % (s.prop, r.get('family'), str(r.get('detail', '')).replace('\n', '\n# ')))
                f.write('\n'.join(r.get('replay') or []) + '\n')
            print('VIOLATION property=%s replay=%s' % (s.prop, path))
            print('  family=%s: %s' % (r.get('family'), str(r.get('detail', ''))[:600]))
            rc = 1
        if rc == 0 and undec:
            rc = 2
            for r in undec[:20]:
                print('UNDECIDED property=%s family=%s: %s' % (s.prop, r.get('family'), str(r.get('detail', ''))[:400]))
        s.write_evidence(len(viol), undec, known_hit)
        ok = sum(1 for r in s.results if r['status'] == 'ok')
        ceil = [r for r in s.results if r['status'] == 'ceiling-not-reached']
        for r in ceil[:12]:
            print('CEILING-NOT-REACHED property=%s family=%s: %s' % (s.prop, r.get('family'), str(r.get('detail', ''))[:160]))
        print('%s tier=%s seed=%d families=%d ok=%d known=%d undecided=%d ceiling-not-reached=%d violations=%d wall=%.1fs' % (
            s.prop, s.tier, s.seed, len(s.results), ok, len(known_hit), len(undec), len(ceil), len(viol), time.time() - s.t0))
        sys.stdout.flush()
        return rc

    def write_evidence(s, nviol, undec, known_hit):
        obligations = sum(r.get('obligations', 0) for r in s.results)
        discharged = sum(r.get('discharged', 0) for r in s.results)
        nontrivial = sum(1 for r in s.results if r.get('symbolic_inputs', 0) > 0 and r.get('witness') in ('alive', 'n/a-cover'))
        samples = []
        for r in s.results:
            if r.get('sample') and len(samples) < 8: samples.append({'family': r['family'], 'engine': r['engine'], **r['sample']})
        stats = {}
        for r in s.results:
            for k, v in (r.get('stats') or {}).items():
                if isinstance(v, (int, float)): stats[k] = round(stats.get(k, 0) + v, 3)
        fns, libs = set(), set()
        for r in s.results:
            fns |= set(r.get('functions', [])); libs |= set(r.get('lib_models', []))
        bounds = {}
        for r in s.results:
            b = r.get('bounds')
            if b: bounds.setdefault(r.get('group', r['engine']), []).append(b)
        cov = {
            'evaluations': len(s.results),
            'distinct_nontrivial': nontrivial,
            'rule': 'one evaluation = one query family (an indicator instantiation x bound) whose obligations are decided by '
                    'z3 / CBMC over symbolic inputs; counted as non-trivial only if it has >= 1 symbolic input and its vacuity '
                    'witness (a deliberately perturbed oracle, or kani::cover) came back satisfiable',
            'samples': samples or [{'note': 'no family produced a sample'}],
            'obligations': obligations, 'discharged': discharged,
            'traces_validated_against_impl': s.extra.get('traces_validated', 0),
            'exhaustive': False,
            'solver': stats,
            'families': [{k: r.get(k) for k in ('family', 'engine', 'status', 'bounds', 'obligations', 'discharged', 'witness', 'wall_s', 'detail') if r.get(k) is not None} for r in s.results],
            'functions_encoded': sorted(fns),
            'library_models_used': sorted(libs),
            'known_findings_hit': [e['what'] for e, _ in known_hit],
            'undecided': [r['family'] for r in undec],
            'outside_the_claim': list(dict.fromkeys(s.notes)),
            'ceiling_not_reached': [r['family'] for r in s.results if r['status'] == 'ceiling-not-reached'],
        }
        cov.update({k: v for k, v in s.extra.items() if k not in cov})
        ev = {'property_id': s.prop, 'tier': s.tier, 'seed': s.seed, 'level': s.level, 'coverage': cov,
              'assumptions': list(dict.fromkeys(s.assumptions)), 'wall_s': round(time.time() - s.t0, 2), 'violations': nviol}
        with open(os.path.join(VERIF, 'evidence', s.prop + '.json'), 'w') as f:
            json.dump(ev, f, indent=1, default=str)
