#!/usr/bin/env python3
"""Regenerate /verif/MANIFEST.json from the table below (kept in one place so it stays valid)."""
import json, os
ALL = ['C%02d' % i for i in range(1, 20)]
R_NOTE = ("Trusted base: rustc's MIR for /repo (nightly dump, overflow checks on), the mirsym executor and its library models "
          "(validated on every run against the natively compiled crate), z3 (sampled cross-check with cvc5); f64 as exact reals in engine R. "
          "Kani/CBMC bit-precise on the compiled crate where stated. Bounds are stated in the evidence of each run.")
CHECKS = {
    'C01': dict(text="Bounded model checking by solver: every real-valued input stream of length t<=2n+3 (thorough 3n+3) for periods n<=4 (thorough n<=6) "
                     "is covered at once by z3 over the symbolically executed MIR of new/next (exact real arithmetic; Minimum/Maximum exact; SD/BB on variances); "
                     "violations are replayed natively before being reported. Plus Kani: Minimum/Maximum return exactly the window extreme for every finite f64 stream (ties, signed zeros), n<=4 (6), t=n+3 (2n+2); and the same R families after a symbolic history and a reset.",
                technique="symbolic execution of rustc MIR into z3 (QF_UFLRA abstraction then QF_NRA), native replay of models", design='4/C01'),
    'C02': dict(text="Bounded model checking by solver: EMA, TrueRange, ATR, MACD, KeltnerChannel with the smoothing period a *symbolic* integer (every period 1..1e6 at once, incl. 1, "
                     "equal and inverted fast/slow), ChandelierExit for window periods n<=4 (5), all real inputs / independent bar fields, every prefix up to t=8 (12), against closed-form "
                     "weighted sums; violations replayed natively. Plus Kani: EMA returns its first input bit for bit for every f64, and EMA(1) (alpha == 1 exactly) returns every finite input unchanged.",
                technique="symbolic execution of rustc MIR into z3 with symbolic smoothing factor; polynomial normal form + NRA; native replay", design='4/C02'),
    'C03': dict(text="Bounded model checking by solver: RSI (symbolic period), FastStochastic (scalar/bar), SlowStochastic (compositional: EMA with symbolic period of the real "
                     "FastStochastic outputs), ROC, EfficiencyRatio, PPO (concrete period tuples incl. inverted), CCI, MFI, OBV equal their documented formulas for all positive real "
                     "prices / valid bars wherever the reference denominator is non-zero, window periods n<=4 (5), every prefix up to t=2n+3 (3n+3); violations replayed natively with the "
                     "property's condition-number tolerance.",
                technique="symbolic execution of rustc MIR into z3; quotient/polynomial normal forms + UF abstraction with sign lemmas, then NRA; native replay", design='4/C03'),
    'C07': dict(text="Bounded model checking by solver: RSI, FastStochastic (scalar/bar), SlowStochastic, MFI in [0,100] and EfficiencyRatio in [0,1] exactly in real arithmetic whenever the "
                     "reference denominator is non-zero, all positive real prices / valid bars, n<=4 (5), every prefix up to t=2n+3 (3n+3); violations replayed natively with the property's slack. Plus Kani: ER(2) stays in [0, 1+1e-9] bit-precisely for 6-7 inputs symbolic over alphabets of one-pip prices and 1e5-scale outliers (rounding residue of running totals).",
                technique="symbolic execution of rustc MIR into z3; UF abstraction with sign/ratio lemmas then NRA; native replay", design='4/C07'),
    'C09': dict(text="Bounded model checking by solver: SD/MAD/TrueRange/ATR >= 0 and no sqrt of a negative value, Minimum <= Maximum, band/exit ordering for every multiplier in [0,1000], "
                     "histogram identities (MACD with symbolic periods), SMA/WMA/EMA inside their hull, for all real inputs, n<=4 (5), t<=2n+3 (3n+3); violations replayed natively. Plus Kani: SD(1,2) and MAD(2) are >= 0 and not NaN for every finite |x|<=1e12 (cancellation included); R families also after a reset.",
                technique="symbolic execution of rustc MIR into z3 (exact reals); native replay", design='4/C09'),
    'C13': dict(text="Solver-decided absence of algebraic drift for ALL stream lengths at fixed period n<=4 (6): one inductive step of the real next() from every reachable cursor state with "
                     "symbolic window contents (SMA, WMA, SD, BB, MAD: output equals the from-scratch statistic, every accumulator and ring slot re-established), plus bounded unrolling "
                     "from new() at t=3n+4 (4n+4) for SMA/WMA/SD/BB/MAD/Min/Max/CCI/MFI. Accumulated floating-point rounding over 10^6 steps is NOT decided (stated in the evidence). Plus Kani: BB(2) average within 1e-8 of the window mean for 6 inputs symbolic over a cancellation alphabet (a spike, then 1e-6 ticks), sqrt stubbed; a full-range variant as bug hunting only in the thorough tier.",
                technique="one-step induction + bounded unrolling by symbolic execution of rustc MIR into z3 (exact reals)", design='4/C13'),
    'C17': dict(text="Bounded model checking by solver: for SMA, WMA, SD, MAD, Min, Max, FastStochastic, BB, CCI (last n) and ROC, ER, MFI (last n+1): an instance fed an arbitrary symbolic prefix "
                     "(<= n+3 inputs, unconstrained magnitude) then a suffix returns exactly the output of a fresh instance fed the suffix only, n<=4 (5); too-short suffixes must be able "
                     "to differ (witness); violations replayed natively with the property's tolerance. Plus Kani: Minimum/Maximum (FastStochastic n=1) with prefixes of EVERY f64 bit pattern (NaN, inf) of every length 1..n+1 and a finite suffix equal the fresh instance exactly, n<=3 (4). ROC/ER prefixes may contain exact zeros (a zero reference price), only the final outputs are compared.",
                technique="symbolic execution of rustc MIR into z3, two instances with different ring rotation compared; native replay", design='4/C17'),
    'C16': dict(text="Bounded model checking by CBMC on the compiled crate: a symbolic script of up to 7 (9) setter calls (which setter and which value symbolic, every f64 bit pattern incl. NaN/inf/-0.0) "
                     "followed by build(), against a last-value-per-field model: Incomplete iff a field never set, else Invalid iff the six comparisons fail, else Ok with bit-exact getters and an equal clone; "
                     "plus all five setters in any symbolic order. Counterexamples are decoded from concrete playback and replayed natively (dev and release).",
                technique="Kani/CBMC proof harness over kani::any() inputs (bit-precise IEEE-754), native replay of counterexamples", design='4/C16', engine='kani',
                note="Trusted base: Kani 0.68 / CBMC 6.11 (cadical) on the dev-profile build of /repo through a path dependency; unwinding assertions on; kani::cover as reachability witness."),
    'C12': dict(text="Bounded model checking by CBMC on the compiled crate (dev profile: overflow checks and debug assertions on): for all 22 indicators and periods n<=3 (8), schedule "
                     "[k x next, reset] for k=0..2, then 3n+3 x next, clone, next on both, with EVERY input an arbitrary f64 bit pattern (NaN, +-inf, subnormals, -0.0; bar fields independent): "
                     "no Rust panic, no out-of-bounds, no overflow. ChandelierExit/SlowStochastic with EMA::next stubbed (its own harness decides it) and shorter schedules in the quick tier. "
                     "Counterexamples are decoded from concrete playback and replayed natively. Plus R: one inductive step on the cursor invariant from every invariant cursor state with symbolic buffers for the nine ring indicators, n<=5 (12): all history lengths (not required for the verdict). For SMA, WMA, SD, ROC, MFI the same step is taken with the PERIOD SYMBOLIC over 1..2^60 (abstract ring buffer, integer widths from the MIR): every period, every history length; feasible failures are confirmed natively.",
                technique="Kani/CBMC proof harnesses over kani::any() inputs, unwinding assertions on, native replay of counterexamples", design='4/C12', engine='kani',
                note="Trusted base: Kani 0.68 / CBMC 6.11; stubs listed per family in the evidence (f64::sqrt -> arbitrary value for SD/BB; EMA::next -> arbitrary value inside CE/SlowStochastic)."),
    'C06': dict(text="Bounded model checking by CBMC of the serde-derived Serialize/Deserialize impls of /repo, driven through a minimal non-self-describing token format (bincode's shape "
                     "without byte buffers; bincode itself does not finish in CBMC): for 20 indicators (quick; CE and SlowStochastic only in the thorough tier, not required), n=2 (1..3): checkpoints fresh / full "
                     "window after a wrap / just reset; serialize(deserialize(x)) == serialize(x) for histories of EVERY f64 bit pattern; future outputs of the restored instance bit-equal to the original's "
                     "over n+2 inputs after histories that are symbolic over a 4-value alphabet incl. 1e16 and a non-finite value (add/compare-only indicators) or concrete (the rest); DataItem round trip for every "
                     "accepted bar. Counterexamples are confirmed natively with the real bincode 1.3. Concrete-history variants end in a non-finite value still inside the window, or consist of zeros only (values that 'is this the default / empty?' guesses get wrong).",
                technique="Kani/CBMC proof harnesses over the derived serde impls (token-stream format), native confirmation with bincode", design='4/C06', engine='kani',
                note="Trusted base: Kani 0.68 / CBMC 6.11; the token format stands in for bincode inside CBMC only; the native replay uses real bincode."),
    'C04': dict(text="Bounded model checking by solver: for all 22 indicators, periods n<=3 (4): symbolic history (<= n+2 inputs), reset (also double reset, reset on fresh, two histories), then a "
                     "symbolic continuation of n+2 inputs on the reset instance and on a fresh one: outputs pairwise equal, period()/multiplier() unchanged (z3 over the MIR, exact reals); plus Kani harnesses "
                     "with histories of EVERY f64 bit pattern (NaN, +-inf, extremes), reset, then a fixed finite continuation bit-equal to a fresh instance, n<=2 (3). Violations replayed natively.",
                technique="symbolic execution of rustc MIR into z3 + Kani/CBMC harnesses for non-finite histories; native replay", design='4/C04'),
    'C08': dict(text="Bounded model checking by solver: for all 22 indicators, n<=3 (4): symbolic positive prefix (<= n+1) then a flat stretch of n+2 inputs at a symbolic level (bars o=h=l=c, symbolic volume; "
                     "also zero-volume stretches for MFI/OBV): z3 decides over the MIR (exact reals) which steps have a zero denominator (-> NaN) and that the neutral values are exact (FastStochastic 50, "
                     "CCI/ROC/TrueRange/MAD/SD 0, bands collapsed, SMA/WMA/Min/Max = level); Kani decides bit-precisely that FastStochastic/TrueRange/Min/Max are exactly neutral for every finite "
                     "prefix and every finite level in [1e-300,1e300] and that ROC is exactly 0 on a flat stream for levels symbolic over a seeded 96-value table. Known findings (ER, MFI, RSI(1) NaN; CCI residue) "
                     "are listed in known_findings.json and re-confirmed natively on every run. Families also with a reset between the active prefix and the flat stretch; every step of a flat-from-start stretch counts as degenerate.",
                technique="symbolic execution of rustc MIR into z3 (zero-denominator feasibility, exact neutral values) + Kani/CBMC harnesses; native replay", design='4/C08'),
    'C11': dict(text="Solver-decided: (R) every constructor executed from MIR with period arguments symbolic over the WHOLE usize range for the allocation-free indicators (EMA, RSI, ATR, MACD, PPO, KC; "
                     "SlowStochastic's EMA period) and every tuple over 0..=4 (0..=8) for windowed ones: no compiler-inserted overflow/bounds assertion can fail, Err(InvalidParameter) iff some period is 0, "
                     "period()/multiplier() return the arguments; Default::default() executed from MIR behaves as new(documented defaults) on a symbolic stream; (K) the same constructor contract "
                     "bit-precisely for every usize tuple and every f64 multiplier (allocation-free) and every period tuple in 0..=16 (64) (windowed). Display text and accessors are compared natively on a sweep "
                     "incl. 2^31, 2^32, 2^53+1, usize::MAX-1, usize::MAX (formatting is outside both engines). Display/period()/multiplier() are also compared natively across inputs and a reset (the indicator's whole life).",
                technique="symbolic execution of rustc MIR into z3 (integers with overflow assertions) + Kani/CBMC harnesses; native confirmation incl. Display", design='4/C11'),
    'C10': dict(text="Bounded model checking by solver: the generic Next<&T> bodies executed from MIR with a bar whose five getters return five INDEPENDENT symbolic reals: equality with Next<f64> on "
                     "close / low / high as documented (13 indicators), one-price bars vs the scalar path (FastStochastic, SlowStochastic, TrueRange, ATR, KeltnerChannel), independence of every field an "
                     "indicator is not documented to read (all 22, two streams differing exactly there), and DataItem (its own getter MIR) vs any other implementor; n<=3 (4), t=n+2; violations replayed natively. Plus Kani: bar path == scalar path bit for bit with EVERY f64 bit pattern (NaN, inf) in the ignored fields (read field: every finite f64 for Min/Max, a 3-value alphabet for arithmetic indicators).",
                technique="symbolic execution of rustc MIR into z3 with an abstract bar type; native replay", design='4/C10'),
    'C15': dict(text="Bounded model checking by solver with the real code on BOTH sides: each composite's next() and, in the same query, separately constructed public parts fed the same symbolic stream and "
                     "combined as documented (BB vs SMA/SD, SlowStochastic vs EMA o FastStochastic, ATR vs EMA o TrueRange, MACD/PPO vs three EMAs, KC vs EMA/ATR, CE vs Min/Max/ATR, CCI vs SMA/MAD of the "
                     "typical price); EMA periods symbolic for ATR/MACD/KC, n<=4 (5), t=2n+3, also with a reset of composite and parts mid-stream; violations replayed natively (parts wired through the replay binary). The CCI/BB/SlowStochastic families are repeated in a tiny price unit (prices in [2^-60, 2^-50]) so that an absolute threshold inside a composite shows.",
                technique="symbolic execution of rustc MIR into z3 (composite vs hand-wired parts); native replay", design='4/C15'),
    'C14': dict(text="Bounded model checking by solver: two instances fed x and c*x (c in {2^-40, 2^40, 1/3, 7, ...}; symbolic c for the polynomial indicators) resp. x and x+d (d symbolic): price-valued "
                     "outputs scale by c (SD and band half-widths through squares), dimensionless ones are unchanged, shifts move SMA/EMA/WMA/Min/Max/band levels by d and leave SD, MAD, TrueRange, ATR, MACD, "
                     "FastStochastic unchanged, Maximum(x) == -Minimum(-x); all positive real prices / valid bars, n<=3 (4), t=2n+2; RSI excluded as in the statement; violations replayed natively with the "
                     "1e-12 / 1e-9 clauses. Plus Kani: Maximum(x) == -Minimum(-x) exactly for every finite f64 stream (n<=3 (4)); power-of-two scaling (2^-40, 2^40) bit for bit for SMA/EMA/Min/Max on a 4-value alphabet.",
                technique="symbolic execution of rustc MIR into z3 (pairs of runs, scaling lemmas for abstracted quotients); native replay", design='4/C14'),
    'C05': dict(text="Bounded model checking by solver: (R) for all 22 indicators, n<=2 (3): history of h in {0,1,n,n+1} symbolic inputs, clone, then original, clone and an unrelated instance stepped "
                     "round-robin with independent symbolic inputs; every instance's outputs equal a sequential replay of its own sequence on a fresh instance (so nothing leaks between instances and "
                     "outputs are a function of the instance's own history); the executor has no global memory, so any static/thread-local access is undecided rather than ignored; (K) bit-precise: "
                     "the same interleaving on a 3-value alphabet for add/compare-only indicators and MAD, and for every f64 the clone's serialized state equals the original's and is untouched by "
                     "stepping the original. Threads are outside (Kani has no concurrency). A native determinism probe (1400 non-dyadic inputs, bit comparison of two instances / clone / interleaved unrelated instance) runs as a sanity pass and confirms hidden process-wide state that R can only report as an unsupported static access; it is not a solver verdict.",
                technique="symbolic execution of rustc MIR into z3 (interleaved instances vs replays) + Kani/CBMC harnesses; native replay", design='4/C05'),
    'C18': dict(text="(R) symbolic execution of new + 3n+3 x next + reset + next for all 22 indicators, n<=3 (6): no allocating call is reached inside next()/reset() and every owned heap array keeps "
                     "its identity and length (so, step by step, the owned heap is the constructor's allocation: 8*period bytes per window); (K) the real bincode::serialized_size compiled into the "
                     "harness stays <= 256+64*sum(periods) after each of n+3 steps of every f64 bit pattern and after reset; an allocating call that IS reachable inside next() is confirmed or refuted by a "
                     "native long-stream probe (35 stream shapes x 1200 inputs, bincode size against the bound), which also runs as a sanity pass on the unchanged tree.",
                technique="symbolic execution of rustc MIR (reachability of allocation sites, buffer identity) + Kani/CBMC size harnesses; native long-stream confirmation", design='4/C18'),
}
NA = {
    'C19': "decided by rustc's type checker once and for all; there is no input, state or schedule for an SMT/SAT solver to quantify over",
}
def main():
    checks = []
    for p in ALL:
        if p not in CHECKS: continue
        c = CHECKS[p]
        checks.append({
            'property_id': p,
            'quick_cmd': './check %s --tier quick' % p,
            'thorough_cmd': './check %s --tier thorough' % p,
            'evidence_file': 'evidence/%s.json' % p,
            'replay_cmd_template': './check replay {path}',
            'engine': c.get('engine', 'mirsym+kani'),
            'level_claimed': {'category': 'model_checking', 'text': c['text'], 'design_ref': 'DESIGN.md section ' + c['design']},
            'level_note': c.get('note', R_NOTE),
            'technique': c['technique'],
        })
    na = [{'property_id': p, 'reason': NA.get(p, 'check not built yet (framework under construction)')} for p in ALL if p not in CHECKS]
    m = {
        'version': 1,
        'setup_cmd': './setup.sh',
        'hooks': {'guard': 'greyblake_ta_rs_verif',
                  'enable': 'no source hooks exist: engine R reads the MIR rustc emits for /repo, engine K and the native replay use the public API through a path dependency',
                  'baseline_off_cmd': 'cd /repo && cargo test --offline --no-fail-fast', 'source_commits': [], 'add_only': True},
        'engines': [
            {'name': 'mirsym', 'path': 'vlib/mirsym.py', 'serves_properties': [p for p in ALL if p in CHECKS],
             'kind_free_text': 'symbolic executor for rustc MIR text -> z3 (reals/ints), two-stage solving, native replay'},
            {'name': 'kani', 'path': 'vlib/kani.py', 'serves_properties': [p for p in ALL if p in CHECKS], 'kind_free_text': 'Kani 0.68 / CBMC 6.11 proof harnesses on the compiled crate (external crate, path dependency)'},
            {'name': 'replay', 'path': 'replay/', 'serves_properties': [p for p in ALL if p in CHECKS], 'kind_free_text': 'native replay binary for solver models'},
        ],
        'checks': checks,
        'notes': 'Exit codes: 0 held within bounds; 1 natively reproduced violation (VIOLATION line); 2 undecided (never success). known_findings.json lists genuine defects.',
        'not_applicable': na,
    }
    json.dump(m, open('/verif/MANIFEST.json', 'w'), indent=1)
if __name__ == '__main__':
    main()
