#!/bin/sh
# Build the framework from files on disk only (offline). Every check rebuilds against /repo's tree anyway.
set -e
cd "$(dirname "$0")"
V=$(pwd)
export CARGO_NET_OFFLINE=true
mkdir -p .work evidence
[ -f replay/Cargo.lock ] || cp /repo/Cargo.lock replay/Cargo.lock
(cd replay && CARGO_TARGET_DIR=$V/.work/replay_target cargo build --offline --quiet && CARGO_TARGET_DIR=$V/.work/replay_target cargo build --offline --quiet --release)
python3-vt -c "import z3; print('z3', z3.get_version_string())"
echo setup ok
