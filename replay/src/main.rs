// Native replay of operation scripts against the real `ta` crate (path dependency on /repo).
// Protocol (one command per line on stdin, one reply line per command on stdout):
//   new <slot> <IND> <usize params...> [m=<f64>]   -> "ok" | "err <TaError>" | "panic <msg>"
//   default <slot> <IND>                           -> "ok"
//   next <slot> <f64>                              -> "out <hex>..." | "panic" | "unsupported"
//   bar <slot> <o> <h> <l> <c> <v>                 -> same (custom Bar type, no validation)
//   dibar <slot> <o> <h> <l> <c> <v>               -> same via DataItem::builder (or "err ..")
//   reset <slot> | clone <src> <dst> | serde <src> <dst> | display <slot> | debug <slot>
//   period <slot> | mult <slot> | sersize <slot> | serbytes <slot>
// f64 arguments: 0x<16 hex digits> (bit pattern) or a decimal literal / NaN / inf / -inf.
use std::collections::HashMap;
use std::io::{self, BufRead, Write};
use std::panic::{catch_unwind, AssertUnwindSafe};
use ta::indicators::*;
use ta::{Close, DataItem, High, Low, Next, Open, Period, Reset, Volume};

#[derive(Clone, Debug)]
struct Bar { o: f64, h: f64, l: f64, c: f64, v: f64 }
impl Open for Bar { fn open(&self) -> f64 { self.o } }
impl High for Bar { fn high(&self) -> f64 { self.h } }
impl Low for Bar { fn low(&self) -> f64 { self.l } }
impl Close for Bar { fn close(&self) -> f64 { self.c } }
impl Volume for Bar { fn volume(&self) -> f64 { self.v } }

trait Dyn {
    fn next_f(&mut self, x: f64) -> Option<Vec<f64>>;
    fn next_bar(&mut self, b: &Bar) -> Vec<f64>;
    fn next_di(&mut self, b: &DataItem) -> Vec<f64>;
    fn reset(&mut self);
    fn clone_box(&self) -> Box<dyn Dyn>;
    fn display(&self) -> String;
    fn debug(&self) -> String;
    fn period(&self) -> Option<usize>;
    fn mult(&self) -> Option<f64>;
    fn ser(&self) -> Vec<u8>;
    fn roundtrip(&self) -> Result<Box<dyn Dyn>, String>;
}

trait Outv { fn outv(self) -> Vec<f64>; }
impl Outv for f64 { fn outv(self) -> Vec<f64> { vec![self] } }
impl Outv for BollingerBandsOutput { fn outv(self) -> Vec<f64> { vec![self.average, self.upper, self.lower] } }
impl Outv for KeltnerChannelOutput { fn outv(self) -> Vec<f64> { vec![self.average, self.upper, self.lower] } }
impl Outv for MovingAverageConvergenceDivergenceOutput { fn outv(self) -> Vec<f64> { vec![self.macd, self.signal, self.histogram] } }
impl Outv for PercentagePriceOscillatorOutput { fn outv(self) -> Vec<f64> { vec![self.ppo, self.signal, self.histogram] } }
impl Outv for ChandelierExitOutput { fn outv(self) -> Vec<f64> { vec![self.long, self.short] } }

macro_rules! dyn_impl {
    ($t:ty, scalar=$sc:tt, period=$pe:tt, mult=$mu:tt) => {
        impl Dyn for $t {
            fn next_f(&mut self, _x: f64) -> Option<Vec<f64>> { dyn_impl!(@scalar $sc, self, _x) }
            fn next_bar(&mut self, b: &Bar) -> Vec<f64> { Next::<&Bar>::next(self, b).outv() }
            fn next_di(&mut self, b: &DataItem) -> Vec<f64> { Next::<&DataItem>::next(self, b).outv() }
            fn reset(&mut self) { Reset::reset(self) }
            fn clone_box(&self) -> Box<dyn Dyn> { Box::new(self.clone()) }
            fn display(&self) -> String { format!("{}", self) }
            fn debug(&self) -> String { format!("{:?}", self) }
            fn period(&self) -> Option<usize> { dyn_impl!(@period $pe, self) }
            fn mult(&self) -> Option<f64> { dyn_impl!(@mult $mu, self) }
            fn ser(&self) -> Vec<u8> { bincode::serialize(self).unwrap() }
            fn roundtrip(&self) -> Result<Box<dyn Dyn>, String> {
                let bytes = bincode::serialize(self).map_err(|e| e.to_string())?;
                let v: $t = bincode::deserialize(&bytes).map_err(|e| e.to_string())?;
                Ok(Box::new(v))
            }
        }
    };
    (@scalar yes, $s:ident, $x:ident) => { Some(Next::<f64>::next($s, $x).outv()) };
    (@scalar no, $s:ident, $x:ident) => { None };
    (@period yes, $s:ident) => { Some(Period::period($s)) };
    (@period no, $s:ident) => { None };
    (@mult yes, $s:ident) => { Some($s.multiplier()) };
    (@mult no, $s:ident) => { None };
}

dyn_impl!(SimpleMovingAverage, scalar=yes, period=yes, mult=no);
dyn_impl!(ExponentialMovingAverage, scalar=yes, period=yes, mult=no);
dyn_impl!(WeightedMovingAverage, scalar=yes, period=yes, mult=no);
dyn_impl!(StandardDeviation, scalar=yes, period=yes, mult=no);
dyn_impl!(MeanAbsoluteDeviation, scalar=yes, period=yes, mult=no);
dyn_impl!(RelativeStrengthIndex, scalar=yes, period=yes, mult=no);
dyn_impl!(Minimum, scalar=yes, period=yes, mult=no);
dyn_impl!(Maximum, scalar=yes, period=yes, mult=no);
dyn_impl!(FastStochastic, scalar=yes, period=yes, mult=no);
dyn_impl!(SlowStochastic, scalar=yes, period=no, mult=no);
dyn_impl!(TrueRange, scalar=yes, period=no, mult=no);
dyn_impl!(AverageTrueRange, scalar=yes, period=yes, mult=no);
dyn_impl!(MovingAverageConvergenceDivergence, scalar=yes, period=no, mult=no);
dyn_impl!(PercentagePriceOscillator, scalar=yes, period=no, mult=no);
dyn_impl!(CommodityChannelIndex, scalar=no, period=yes, mult=no);
dyn_impl!(EfficiencyRatio, scalar=yes, period=yes, mult=no);
dyn_impl!(BollingerBands, scalar=yes, period=yes, mult=yes);
dyn_impl!(ChandelierExit, scalar=no, period=yes, mult=yes);
dyn_impl!(KeltnerChannel, scalar=yes, period=yes, mult=yes);
dyn_impl!(RateOfChange, scalar=yes, period=yes, mult=no);
dyn_impl!(MoneyFlowIndex, scalar=no, period=yes, mult=no);
dyn_impl!(OnBalanceVolume, scalar=no, period=no, mult=no);

fn pf(s: &str) -> f64 {
    if let Some(h) = s.strip_prefix("0x") {
        f64::from_bits(u64::from_str_radix(h, 16).expect("hex"))
    } else {
        s.parse::<f64>().expect("float")
    }
}

fn construct(name: &str, p: &[usize], m: f64) -> Result<Box<dyn Dyn>, ta::errors::TaError> {
    macro_rules! b { ($e:expr) => { Ok(Box::new($e?) as Box<dyn Dyn>) }; }
    let g = |i: usize| -> usize { p[i] };
    match name {
        "SMA" => b!(SimpleMovingAverage::new(g(0))),
        "EMA" => b!(ExponentialMovingAverage::new(g(0))),
        "WMA" => b!(WeightedMovingAverage::new(g(0))),
        "SD" => b!(StandardDeviation::new(g(0))),
        "MAD" => b!(MeanAbsoluteDeviation::new(g(0))),
        "RSI" => b!(RelativeStrengthIndex::new(g(0))),
        "MIN" => b!(Minimum::new(g(0))),
        "MAX" => b!(Maximum::new(g(0))),
        "FAST_STOCH" => b!(FastStochastic::new(g(0))),
        "SLOW_STOCH" => b!(SlowStochastic::new(g(0), g(1))),
        "TRUE_RANGE" => Ok(Box::new(TrueRange::new())),
        "ATR" => b!(AverageTrueRange::new(g(0))),
        "MACD" => b!(MovingAverageConvergenceDivergence::new(g(0), g(1), g(2))),
        "PPO" => b!(PercentagePriceOscillator::new(g(0), g(1), g(2))),
        "CCI" => b!(CommodityChannelIndex::new(g(0))),
        "ER" => b!(EfficiencyRatio::new(g(0))),
        "BB" => b!(BollingerBands::new(g(0), m)),
        "CE" => b!(ChandelierExit::new(g(0), m)),
        "KC" => b!(KeltnerChannel::new(g(0), m)),
        "ROC" => b!(RateOfChange::new(g(0))),
        "MFI" => b!(MoneyFlowIndex::new(g(0))),
        "OBV" => Ok(Box::new(OnBalanceVolume::new())),
        _ => panic!("unknown indicator {}", name),
    }
}

fn default_of(name: &str) -> Box<dyn Dyn> {
    macro_rules! d { ($t:ty) => { Box::new(<$t>::default()) as Box<dyn Dyn> }; }
    match name {
        "SMA" => d!(SimpleMovingAverage), "EMA" => d!(ExponentialMovingAverage),
        "WMA" => d!(WeightedMovingAverage), "SD" => d!(StandardDeviation),
        "MAD" => d!(MeanAbsoluteDeviation), "RSI" => d!(RelativeStrengthIndex),
        "MIN" => d!(Minimum), "MAX" => d!(Maximum), "FAST_STOCH" => d!(FastStochastic),
        "SLOW_STOCH" => d!(SlowStochastic), "TRUE_RANGE" => d!(TrueRange),
        "ATR" => d!(AverageTrueRange), "MACD" => d!(MovingAverageConvergenceDivergence),
        "PPO" => d!(PercentagePriceOscillator), "CCI" => d!(CommodityChannelIndex),
        "ER" => d!(EfficiencyRatio), "BB" => d!(BollingerBands), "CE" => d!(ChandelierExit),
        "KC" => d!(KeltnerChannel), "ROC" => d!(RateOfChange), "MFI" => d!(MoneyFlowIndex),
        "OBV" => d!(OnBalanceVolume),
        _ => panic!("unknown indicator {}", name),
    }
}

fn fmt_out(v: &[f64]) -> String {
    let mut s = String::from("out");
    for x in v { s.push_str(&format!(" 0x{:016x}", x.to_bits())); }
    s
}

fn main() {
    std::panic::set_hook(Box::new(|_| {}));
    let stdin = io::stdin();
    let stdout = io::stdout();
    let mut out = io::BufWriter::new(stdout.lock());
    let mut slots: HashMap<String, Box<dyn Dyn>> = HashMap::new();
    let mut last: HashMap<String, Vec<f64>> = HashMap::new();
    for line in stdin.lock().lines() {
        let line = line.unwrap();
        let w: Vec<&str> = line.split_whitespace().collect();
        if w.is_empty() || w[0].starts_with('#') { continue; }
        let needs_slot = matches!(w[0], "next" | "bar" | "dibar" | "reset" | "clone" | "serde" | "display" | "debug" | "period" | "mult" | "sersize" | "serbytes");
        if needs_slot && (w.len() < 2 || !slots.contains_key(w[1])) {
            writeln!(out, "noslot").unwrap();
            continue;
        }
        let reply: String = match w[0] {
            "new" => {
                let mut ps = vec![];
                let mut m = 0.0;
                for a in &w[3..] {
                    if let Some(x) = a.strip_prefix("m=") { m = pf(x); } else { ps.push(a.parse::<usize>().unwrap()); }
                }
                let name = w[2].to_string();
                match catch_unwind(AssertUnwindSafe(|| construct(&name, &ps, m))) {
                    Ok(Ok(b)) => { slots.insert(w[1].to_string(), b); "ok".into() }
                    Ok(Err(e)) => format!("err {:?}", e),
                    Err(_) => "panic".into(),
                }
            }
            "default" => { slots.insert(w[1].to_string(), default_of(w[2])); "ok".into() }
            "next" => {
                let x = pf(w[2]);
                let s = slots.get_mut(w[1]).expect("slot");
                match catch_unwind(AssertUnwindSafe(|| s.next_f(x))) {
                    Ok(Some(v)) => { let r = fmt_out(&v); last.insert(w[1].to_string(), v); r }, Ok(None) => "unsupported".into(), Err(_) => "panic".into(),
                }
            }
            "nextfrom" => {
                // nextfrom <dst> <src> <k>: feed dst with output component k of the last output of src
                let x = match last.get(w[2]) { Some(v) => v[w[3].parse::<usize>().unwrap()], None => f64::NAN };
                match slots.get_mut(w[1]) {
                    None => "noslot".into(),
                    Some(s) => match catch_unwind(AssertUnwindSafe(|| s.next_f(x))) {
                        Ok(Some(v)) => { let r = fmt_out(&v); last.insert(w[1].to_string(), v); r }, Ok(None) => "unsupported".into(), Err(_) => "panic".into(),
                    }
                }
            }
            "bar" => {
                let b = Bar { o: pf(w[2]), h: pf(w[3]), l: pf(w[4]), c: pf(w[5]), v: pf(w[6]) };
                let s = slots.get_mut(w[1]).expect("slot");
                match catch_unwind(AssertUnwindSafe(|| s.next_bar(&b))) { Ok(v) => { let r = fmt_out(&v); last.insert(w[1].to_string(), v); r }, Err(_) => "panic".into() }
            }
            "dibar" => {
                let r = DataItem::builder().open(pf(w[2])).high(pf(w[3])).low(pf(w[4])).close(pf(w[5])).volume(pf(w[6])).build();
                match r {
                    Err(e) => format!("err {:?}", e),
                    Ok(di) => {
                        let s = slots.get_mut(w[1]).expect("slot");
                        match catch_unwind(AssertUnwindSafe(|| s.next_di(&di))) { Ok(v) => fmt_out(&v), Err(_) => "panic".into() }
                    }
                }
            }
            "diserde" => {
                // diserde <o> <h> <l> <c> <v>: build through the builder, bincode round trip, compare
                let r = DataItem::builder().open(pf(w[1])).high(pf(w[2])).low(pf(w[3])).close(pf(w[4])).volume(pf(w[5])).build();
                match r {
                    Err(e) => format!("err {:?}", e),
                    Ok(di) => match catch_unwind(AssertUnwindSafe(|| {
                        let bytes = bincode::serialize(&di).map_err(|e| e.to_string())?;
                        let back: DataItem = bincode::deserialize(&bytes).map_err(|e| e.to_string())?;
                        Ok::<bool, String>(back == di && back.open().to_bits() == di.open().to_bits() && back.high().to_bits() == di.high().to_bits()
                            && back.low().to_bits() == di.low().to_bits() && back.close().to_bits() == di.close().to_bits() && back.volume().to_bits() == di.volume().to_bits())
                    })) {
                        Ok(Ok(true)) => "ok".into(), Ok(Ok(false)) => "differs".into(), Ok(Err(e)) => format!("err {}", e.replace('\n', " ")), Err(_) => "panic".into(),
                    }
                }
            }
            "dibuild" => {
                // dibuild o:<f64> h:<f64> ... : setter calls in the given order (repeats allowed), then build()
                let r = catch_unwind(AssertUnwindSafe(|| {
                    let mut b = DataItem::builder();
                    for tok in &w[1..] {
                        let (k, v) = tok.split_at(2);
                        let x = pf(v);
                        b = match k { "o:" => b.open(x), "h:" => b.high(x), "l:" => b.low(x), "c:" => b.close(x), "v:" => b.volume(x), _ => panic!("bad setter") };
                    }
                    b.build()
                }));
                match r {
                    Ok(Ok(d)) => { let c = d.clone(); format!("{} {}", fmt_out(&[d.open(), d.high(), d.low(), d.close(), d.volume()]), if c == d { "cloneeq" } else { "clonene" }) }
                    Ok(Err(e)) => format!("err {:?}", e),
                    Err(_) => "panic".into(),
                }
            }
            "reset" => {
                let s = slots.get_mut(w[1]).expect("slot");
                match catch_unwind(AssertUnwindSafe(|| s.reset())) { Ok(_) => "ok".into(), Err(_) => "panic".into() }
            }
            "clone" => {
                let c = match catch_unwind(AssertUnwindSafe(|| slots.get(w[1]).expect("slot").clone_box())) { Ok(c) => Some(c), Err(_) => None };
                match c { Some(c) => { slots.insert(w[2].to_string(), c); "ok".into() } None => "panic".into() }
            }
            "serde" => {
                let c = catch_unwind(AssertUnwindSafe(|| slots.get(w[1]).expect("slot").roundtrip()));
                match c { Ok(Ok(c)) => { slots.insert(w[2].to_string(), c); "ok".into() } Ok(Err(e)) => format!("err {}", e.replace('\n', " ")), Err(_) => "panic".into() }
            }
            "display" => match catch_unwind(AssertUnwindSafe(|| slots.get(w[1]).expect("slot").display())) { Ok(s) => format!("str {}", s), Err(_) => "panic".into() },
            "debug" => match catch_unwind(AssertUnwindSafe(|| slots.get(w[1]).expect("slot").debug())) { Ok(s) => format!("str {}", s.replace('\n', " ")), Err(_) => "panic".into() },
            "period" => match slots.get(w[1]).expect("slot").period() { Some(p) => format!("usize {}", p), None => "unsupported".into() },
            "mult" => match slots.get(w[1]).expect("slot").mult() { Some(m) => fmt_out(&[m]), None => "unsupported".into() },
            "sersize" => match catch_unwind(AssertUnwindSafe(|| slots.get(w[1]).expect("slot").ser().len())) { Ok(n) => format!("usize {}", n), Err(_) => "panic".into() },
            "serbytes" => match catch_unwind(AssertUnwindSafe(|| slots.get(w[1]).expect("slot").ser())) {
                Ok(b) => { let mut s = String::from("bytes "); for x in b { s.push_str(&format!("{:02x}", x)); } s }
                Err(_) => "panic".into() },
            _ => format!("badcmd {}", w[0]),
        };
        writeln!(out, "{}", reply).unwrap();
    }
    out.flush().unwrap();
}
